#!/bin/bash
# usage: try_seed.sh <seed dir under /verif/seeded or a dir with patch.diff> <govc fn arguments...>
# Scratch worktree of /repo HEAD + the CURRENT (possibly uncommitted) contract files + the seeded patch; runs `govc fn ...` on it.
set -u
. /verif/env.sh
sd=$1; shift
[ -d "$sd" ] || sd=/verif/seeded/$sd
wt=/tmp/seedwt/try-$$
git -C /repo worktree prune; git -C /repo worktree add -q --detach "$wt" HEAD || exit 2
(cd /repo && git ls-files -o -m --exclude-standard | grep zz_verif | while read f; do mkdir -p "$wt/$(dirname $f)"; cp "$f" "$wt/$f"; done)
(cd "$wt" && git apply "$sd/patch.diff") || { echo APPLY-FAILED; git -C /repo worktree remove --force "$wt"; exit 3; }
GOVC_REPO="$wt" timeout 1200 ${GOVC_BIN:-/verif/bin/govc} fn "$@" 2>&1 | grep -v '^  ok'
git -C /repo worktree remove --force "$wt"
