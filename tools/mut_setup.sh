#!/bin/bash
# usage: mut_setup.sh <property id> <n>   -> /tmp/mut/<id>-<n>/{repo,property.json,out/}
# A standalone scratch copy of /repo HEAD WITHOUT any verification contract file and without history, for a mutation sub-agent.
set -eu
id=$1; n=$2; d=/tmp/mut/$id-$n
rm -rf "$d"; mkdir -p "$d/repo" "$d/out/demo"
git -C /repo archive HEAD | tar -x -C "$d/repo"
find "$d/repo" -name 'zz_verif*' -delete
( cd "$d/repo" && git init -q && git add -A && git -c user.name=x -c user.email=x@x commit -qm "scratch base" )
python3 - "$id" "$d" <<'PY'
import json,sys,glob
pid,d=sys.argv[1:3]
for l in open('/verif/properties.jsonl'):
    p=json.loads(l)
    if p['id']==pid:
        json.dump({k:p[k] for k in ('id','title','statement','quantifier','why_tests_cant','anchors')},open(d+'/property.json','w'),indent=1)
prev=[]
for m in sorted(glob.glob(f'/verif/seeded/{pid}-*/meta.json')):
    prev.append(json.load(open(m)).get('title'))
json.dump(prev,open(d+'/already_tried.json','w'),indent=1)
PY
echo "$d"
