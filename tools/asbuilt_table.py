#!/usr/bin/env python3
"""Regenerates the as-built table of DESIGN.md section 9.6 from /verif/evidence/*.json (written by the checks themselves)."""
import json, glob, re
V = '/verif'
rows = []
for f in sorted(glob.glob(V + '/evidence/C*.json')):
    e = json.load(open(f))
    c = e['coverage']
    bb = ', '.join(f'{k}: {v}' for k, v in sorted(c.get('by_backend', {}).items()))
    slow = (c.get('slowest_queries') or [''])[0].split(' ')[0]
    rows.append(f"| {e['property_id']} | {len(c.get('functions_under_contract', []))} | {c['obligations']} | {c['discharged']} | "
                f"{c.get('known_finding_obligations', 0)} | {c.get('bounded_obligations', 0)} | {bb} | {c.get('solver_time_s', 0):.0f} | {slow} | {e.get('wall_s', 0):.0f} |")
table = ('| property | functions under contract | obligations | discharged | known-finding obligations | of which bounded | discharged by back end | solver CPU s | slowest query | wall s |\n'
         '|---|---|---|---|---|---|---|---|---|---|\n' + '\n'.join(rows))
p = V + '/DESIGN.md'
s = open(p).read()
blk = '<!-- asbuilt table begin -->\n' + table + '\n<!-- asbuilt table end -->'
if '<!-- asbuilt table begin -->' in s:
    s = re.sub(r'<!-- asbuilt table begin -->.*?<!-- asbuilt table end -->', lambda _: blk, s, flags=re.S)
else:
    s = s.replace('## 10. Seeded changes', '### 9.7 Numbers of the last run (quick tier), from the evidence files\n\n' + blk + '\n\n## 10. Seeded changes', 1)
m = json.load(open(V + '/MANIFEST.json'))
claims = ['* **%s** (%s): %s' % (c['property_id'], c['level_claimed']['category'], c['level_claimed']['text']) for c in m['checks']]
nas = ['* **%s**: not applicable / not claimed: %s' % (n['property_id'], n['reason']) for n in m.get('not_applicable', [])]
blk2 = '<!-- claims begin -->\n' + '\n'.join(claims + nas) + '\n<!-- claims end -->'
if '<!-- claims begin -->' in s:
    s = re.sub(r'<!-- claims begin -->.*?<!-- claims end -->', lambda _: blk2, s, flags=re.S)
else:
    s = s.replace('## 10. Seeded changes', '### 9.8 What each registered check claims (copied from MANIFEST.json by tools/asbuilt_table.py)\n\n'
                  'These texts, not the plan of section 3, state what is decided. Section 3 remains the rationale for the contracts.\n\n' + blk2 + '\n\n## 10. Seeded changes', 1)
open(p, 'w').write(s)
print(len(rows), 'rows', len(claims), 'claims')
