#!/usr/bin/env python3
"""Builds /verif/props/<ID>.json from the unit lists in /verif/props/parts/*.json and /verif/props/own/*.json.
The part files were written by the contract authors (one per work package); this script only regroups them per property."""
import json, glob, os, collections
P = '/verif/props'
skip = set(open(P + '/inprogress.txt').read().split()) if os.path.exists(P + '/inprogress.txt') else set()  # part files of authors still at work
parts = {os.path.basename(f)[:-5]: json.load(open(f)) for f in sorted(glob.glob(P + '/parts/*.json') + glob.glob(P + '/own/*.json')) if os.path.basename(f)[:-5] not in skip}
props = collections.OrderedDict()
def add(pid, src, groups, timeout=None):
    p = props.setdefault(pid, {"id": pid, "groups": [], "assumptions": [], "not_decided": [], "sources": []})
    p["groups"] += groups
    for k in ("assumptions", "not_decided"):
        for x in src.get(k, []):
            if x not in p[k]:
                p[k].append(x)
    if timeout:
        p["timeout"] = max(p.get("timeout", 0), timeout)
for name, src in parts.items():
    pid = src["property"]
    add(pid, src, src.get("groups", []), src.get("timeout"))
    props[pid]["sources"].append(name)
    for other, units in src.get("also_serves_units", {}).items():
        gs = []
        for g in src["groups"]:
            us = [u for u in g["units"] if u["func"] in units]
            if us:
                gs.append({"packages": g["packages"], "units": us})
        add(other, {}, gs, src.get("timeout"))
        props[other]["sources"].append(name + " (shared units)")
    for other in src.get("also_serves_all", []):
        add(other, src, src.get("groups", []), src.get("timeout"))
        props[other]["sources"].append(name + " (all units)")
for pid, p in props.items():
    json.dump(p, open(f'{P}/{pid}.json', 'w'), indent=1)
    print(pid, sum(len(g["units"]) for g in p["groups"]), "units from", p["sources"])
