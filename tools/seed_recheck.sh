#!/bin/bash
# usage: seed_recheck.sh <seed id> <check>...   re-runs registered quick checks against an already confirmed seed
# (scratch worktree of /repo HEAD + patch), updates detected_by in /verif/seeded/<id>/meta.json.
set -u
. /verif/env.sh
sid=$1; shift
out=/verif/seeded/$sid; wt=/tmp/seedwt/re-$sid
rm -rf "$wt"; git -C /repo worktree prune; git -C /repo worktree add -q --detach "$wt" HEAD || exit 2
(cd "$wt" && git apply "$out/patch.diff") || { echo "APPLY-FAILED $sid"; git -C /repo worktree remove --force "$wt"; exit 3; }
detected=""
for p in "$@"; do
  GOVC_REPO="$wt" /verif/bin/govc check -prop $p -tier quick -noevidence > "$out/check_$p.out" 2>&1; rc=$?
  echo "recheck $sid $p: exit $rc, $(grep -c '^VIOLATION' "$out/check_$p.out") VIOLATION lines" | tee -a "$out/confirm.log"
  [ $rc -eq 1 ] && detected="$detected $p"
done
git -C /repo worktree remove --force "$wt"
python3 - "$out" "$detected" <<'PY'
import json,sys
out,det=sys.argv[1:3]
m=json.load(open(out+'/meta.json')); m['detected_by']=det.split(); json.dump(m,open(out+'/meta.json','w'),indent=1)
print(m['seed'],'detected_by',m['detected_by'])
PY
