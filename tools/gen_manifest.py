#!/usr/bin/env python3
"""Generates /verif/MANIFEST.json from the per-property texts below and the property configurations in /verif/props."""
import json, os, subprocess

V = '/verif'
TECH = "contract-based deductive verification (self-generated VCs over go/ssa, SMT-discharged)"
COMMON_NOTE = ("trusted: go/packages+go/ssa front end, z3 5.1 / z3 4.8 / cvc5, the govc generator, the trusted library contracts in "
               "/verif/trusted/stdlib.contracts.go; integers are Go bit-vectors; slice lengths <= 2^40; pointer receivers non-nil; "
               "type-based separation of allocation classes (no unsafe); callee contracts marked `assigns internal` are ASSUMED frames; "
               "obligations a unit generates but does not claim (evidence: obligations_generated_but_not_claimed, each with its reason) are assumed by the "
               "later obligations of the same function, like a failed obligation would be; "
               "every assumption used in a run is listed in the evidence file")

CLAIMS = {
 "C01": ("Client-side proof verifiers under functional contracts: ahtree.Eval*/Verify* and htree.VerifyInclusion equal recursive reference "
         "spec functions (loop invariants, no bound on proof length); store.VerifyLinearProof / VerifyLinearAdvanceProof / VerifyDualProof / "
         "VerifyDualProofV2 have one named postcondition per mandatory step of docs/security/PROOFS.md in the direction accept ==> step, plus the "
         "converse (honest shape ==> accept); none of them panics for any input. Client side (pkg/client, typestate order rules over the real verified operations verifiedGet, VerifiedSet, VerifiedTxByID, VerifiedSetReferenceAt, VerifiedZAddAt, VerifyRow, stream variants): a new trusted state is stored and success is reported only after the inclusion proof verified (boolean verdict true), the dual proof verified unless there is no previously trusted state (the else branch of the source comparison state.TxId > 0), and the state signature was checked whenever a signing key is configured; verifyDualProof reports success only after store.VerifyDualProof returned true. Narrower than the property: the values the client passes (ids, hashes) are not decided at the typestate level; server-side "
         "completeness over all histories, cross-call soundness (Merkle consistency theorem) and collision resistance are not machine-checked.",
         "DESIGN.md 3 (C01)"),
 "C02": ("The precommit ring buffer against its abstract sequence: put/readAhead/advanceReader/recedeWriter/freeSlots preserve the representation "
         "invariant, change the element count exactly as specified, write exactly the slot at the new write position and leave every other element "
         "unchanged (quantified frame), and readAhead(n) returns element n; the commit-state functions (mayCommit, AllowCommitUpto, accessors; performPrecommit on its early error paths) "
         "keep committedTxID monotone, set committedAlh to the Alh of the last committed buffer entry and preserve the ordering lock invariant; TxReader.Read accepts a transaction only if it chains to the previously "
         "read one (ascending: PrevAlh, descending: Alh). Narrower than the property: the commit-state lock invariant, restart, compaction and file "
         "contents are not decided.",
         "DESIGN.md 3 (C02)"),
 "C03": ("Write-ordering typestate over the real synced-mode commit path: in ImmuStore.sync every commit-log append/rewind and the durable-precommit "
         "acknowledgement happen only after a successful tx-log Flush then Sync; the committed frontier moves and committers are acknowledged only after a "
         "successful commit-log Flush then Sync; each value log is flushed then fsynced and the closure reports success only then; ImmuStore.commit returns "
         "a nil error only after the commit watcher acknowledged the tx; AHtree.sync rewrites its commit log only after payload and digest logs are fsynced "
         "and moves its synced frontier only after the commit-log fsync; TBtree.flushTree appends the commit-log entry only after node/history logs are "
         "flushed, fsyncs them before the commit log, and discards node-log data only after the commit-log fsync; singleapp's sync flushes its write buffer before the fsync; the tbtree commit-log entry codec round-trips every field INCLUDING the not-fsynced flag that index recovery relies on (harness over the real serialize/deserialize, shared with C15). Far narrower than the property: crash-point "
         "enumeration, partial-write images, recovery at Open and post-recovery proofs are not decided.",
         "DESIGN.md 3 (C03), 9.5"),
 "C04": ("Narrow, per-function part of the read path: the index value codec (serializeIndexableEntry / valueRefFrom) round-trips vLen, vOff, hVal, metadata "
         "presence, tx and revision for every input and rejects short or over-long input without panic; ImmuStore.History and Snapshot.History number "
         "revisions offset+1+k ascending and hCount-offset-k descending (running-revision loop invariant); tbtree leafValue.history continues the numbering of the in-memory versions when it reads the on-disk history log (loop invariant ti >= len(timedValues)); GetWithFilters / GetWithPrefixAndFilters return an "
         "entry XOR an error and every filter applied so far returned nil at every loop head; IgnoreDeleted / IgnoreExpired / Deleted / ExpiredAt predicates; "
         "WaitForIndexingUpto returns nil only if every indexer wait it issued returned nil. Not decided: indexSince (bulk preparation), the B-tree (C10), "
         "key readers, every asynchronous behaviour, restart.",
         "DESIGN.md 3 (C04), 11"),
 "C13": ("Savepoint and commit plumbing of sql.SQLTx only: Savepoint / RollbackToSavepoint / ReleaseSavepoint fail exactly when the lookup fails (nil map "
         "included), restore the four SQL-level counters, are a no-op on error and write only the SQLTx (checked frame); a harness proves that "
         "RollbackToSavepoint leaves the store transaction untouched and the harness stating the property's clause (writes after the savepoint are undone) is "
         "the known finding; Cancel and the first part of Commit keep the one-shot discipline (already-closed error, same store tx); every invalidation of the engine-wide "
         "catalog cache bumps the cache version, and BEGIN TRANSACTION with pending implicit changes commits them before it opens the new transaction (typestate order rules). With Go maps modelled as heap objects: Savepoint records under the given name a fresh, non-nil state holding the two scalar counters and FRESH copies of the two per-table key maps that contain nothing but entries of the live maps (subset direction, for every key); RollbackToSavepoint / ReleaseSavepoint fail exactly when the name is absent, restore from the recorded state, consume the savepoint and leave the other entries on error; harnesses: Savepoint; arbitrary counter changes; RollbackToSavepoint finds the savepoint, restores the counters and cannot be repeated; a savepoint is released once. Not decided: that the copies are COMPLETE (range over a map yields an arbitrary present key: no visited set), statement "
         "execution, atomicity and isolation over programs and sessions, pgsql front end.",
         "DESIGN.md 3 (C13), 11"),
 "C05": ("Sequential clauses of MVCC over the real OngoingTx code: GetWithFilters / GetWithPrefixAndFilters / MarkPrefixScanned / key readers record exactly one "
         "expectation per read that is not an own write (or fail with the limit error), own writes and read-only transactions record nothing, the read-set size "
         "grows by at most one per call and never exceeds mvccReadSetLimit; the interceptor a transaction installs on its snapshot returns its own pending entry "
         "(Tx() == 0); checkPreconditions returns nil only if every explicit precondition was checked and passed and every snapshot of the transaction was "
         "examined (ghost call counters), and writes nothing but the ghost counters in every outcome. Far narrower than the property: serializability over "
         "interleavings, the comparison of each re-evaluated expectation, range readers and prefix fingerprints are not decided.",
         "DESIGN.md 3 (C05), 11"),
 "C06": ("Visibility gate and precondition semantics: every read of a transaction by id (ReadTx, ReadTxEntry, ReadTxHeader, readTx) goes through "
         "appendableReaderForTx, which hands out a reader only for a precommitted transaction and, unless the caller explicitly allows precommitted ones, only for "
         "a committed one, without moving the frontiers: a nil error of ReadTx / ReadTxEntry implies txID <= committedTxID; the three Validate functions accept exactly the well-formed preconditions (non-empty key within maxKeyLen, TxID > 0); "
         "the three Check functions are true exactly when their defining predicate holds on the answer of the index they are given (KeyMustExist, KeyMustNotExist, "
         "KeyNotModifiedAfterTx incl. deleted/expired/unknown keys); checkPreconditions applies a transaction only if all preconditions were checked and hold; "
         "hasPreconditions; database.ExecAll reaches its commit callback (which checks references against the live index) only while holding the database lock EXCLUSIVELY (typestate order rule). database.resolveValue resolves a reference through the same index (snapshot or live) the read was given (call-site assertion). Far narrower than the property: linearizability over concurrent histories, the indexing gate under concurrency, snapshots of "
         "pkg/database and reads of in-flight transactions are not decided.",
         "DESIGN.md 3 (C06)"),
 "C07": ("Commit-state functions of the replica path under value contracts: mayCommit moves the committed frontier exactly to the allowance, sets committedAlh "
         "to the Alh of the last committed ring-buffer entry, leaves everything on error and preserves the ordering lock invariant (committed <= allowance <= "
         "precommitted); AllowCommitUpto is monotone and capped by the precommitted id and fails without external allowance; PrecommittedAlh returns the committed pair, the in-memory pair, or in between exactly the (durable - committed)-th element of the ring of precommitted transactions (what a replica acknowledges); DiscardPrecommittedTxsSince recedes the "
         "durable-precommit watermark consistently at the return sites that decide within budget (its full contract - committed pair untouched, allowance of "
         "discarded transactions voided - is written and was discharged, but is too unstable in solver time to be registered); "
         "its deferred function literal recedes the watermark only after the precommitted id was lowered (typestate order rule); PrecommittedAlh / accessors; OngoingTx.validateAgainst accepts a header only with matching entry count and metadata; Tx.Header copies the header "
         "fields. Not decided: performPrecommit and precommit (contracts written, not discharged within budget), ReplicateTx end to end, replicator goroutines, "
         "delivery schedules, network.",
         "DESIGN.md 3 (C07), 11"),
 "C08": ("Verifier half of the property: ahtree.EvalInclusion / EvalLastInclusion / EvalConsistency equal the recursive reference definitions of "
         "path evaluation and VerifyInclusion / VerifyLastInclusion / VerifyConsistency accept exactly when the shape conditions hold and the "
         "evaluated root equals the claimed one (both directions); htree.VerifyInclusion likewise. Generator half, htree only: New builds the "
         "representation invariant (level count, power-of-two row lengths, separation of the rows); BuildWith under that invariant never panics, "
         "terminates, fails exactly when the input is wider than maxWidth and then writes nothing, sets the width, and gives the empty tree the "
         "hash of the empty string; InclusionProof never panics for ANY index (a negative index was a defect, repaired), terminates, fails exactly for "
         "indices outside [0, width), returns a fresh proof with Leaf/Width set and fewer terms than leaves (one index obligation excluded: solver budget). "
         "ahtree rollback: a successful ResetSize to a smaller size leaves exactly newSize commit-log entries, nodesUpto(newSize) digests (nodesUpto as an uninterpreted function) and newSize as the synced frontier, whatever the sizes were before. "
         "NOT decided: that the levels BuildWith computes equal the reference construction (contract written, does not discharge within budget), the ahtree "
         "generators (Append, inclusion/consistency proofs, OpenWith).",
         "DESIGN.md 3 (C08)"),
 "C09": ("Integrity-checked read paths: readValueAt returns a nil error (without skipIntegrityCheck) only if it filled the whole buffer and the "
         "SHA-256 of the bytes equals the expected hash, on every return path incl. the cache path; ReadValue / valueRef.Resolve return a value only "
         "if its hash equals the entry's hash (known finding: vLen == 0); buildAndValidateHtree returns nil only if the Alh recomputed from the parsed "
         "header equals the stored one; TxReader.Read checks the hash chain in both directions; the parsers on the tx-read path never panic; the indexer reads transactions from the tx log only with the integrity check on and only committed ones (call-site assertion in indexSince). "
         "Narrower: open-time scan, index rebuild, exports, compressed logs; binding (collision resistance) is an assumption.",
         "DESIGN.md 3 (C09)"),
 "C10": ("Node-local part of the B-tree: leaf/inner indexOf, findLeafNode, get, getBetween, history and lastUpdateBetween (in-memory part), "
         "splitIndex, inner split, size arithmetic and the commit-log entry codec are safe for all inputs and meet functional postconditions stated "
         "over the key comparisons the code performs. The tree as a whole (copy-on-write, flush, compaction, snapshots, history log) is not decided.",
         "DESIGN.md 3 (C10)"),
 "C14": ("ExportTx releases _valBsMux on every return path and in every loop iteration (typestate level); multiapp.DiscardUpto removes chunk i "
         "only if (i+1)*fileSize <= off and i < currAppID, errors if off > size and leaves fileSize/currAppID/currApp unchanged; "
         "decodeOffset(encodeOffset(o, id)) == (id, o); the truncation protocol commits the SQL catalog copy (with the truncation marker) before any value-log data "
         "is discarded and reports success only after that commit (typestate order rules on vlogTruncator.TruncateUptoTx and db.CopySQLCatalog). Tombstone computation of (*ImmuStore).TruncateUptoTx under a value contract over the real closures and the real map: every offset handed to DiscardUpto for value log v is at most the first-entry offset of EVERY transaction in [minTxID, committed id as of the call] whose first entry lies in v (loop invariants over a rigid transaction id; ghost functions for the stored first entry, defined by the ASSUMED postcondition of readTxOffsetAt); all obligations of the function incl. safety and loop frames discharge. Not decided: entries other than the first of a transaction, racing writers, the SQL catalog copy contents.",
         "DESIGN.md 3 (C14)"),
 "C15": ("Round trip and order lemmas as loop-free harnesses over the REAL encoders/decoders: SQL key encodings of INTEGER, BOOLEAN, UUID, FLOAT, "
         "TIMESTAMP, NULL (round trip, order iff byte order, equal iff identical; FLOAT except the known -0.0/+0.0 finding), VARCHAR/BLOB key round "
         "trip for every maxLen, row value codecs, EncodeID, encodeOffset/decodeOffset, TxHeader Bytes/ReadFrom (v0, v1 without metadata), tx metadata "
         "attribute codecs, tbtree cLogEntry. VARCHAR/BLOB key ORDER is proved for EVERY maxLen and all payloads incl. NUL bytes and the empty payload (no bound): witness lemmas over the first differing index plus six exhaustive case harnesses through the real EncodeRawValueAsKey, with the first-difference / first-non-NUL index functions proved as loops; it replaces the former bounded stand-in (maxLen <= 8). Assumed: bytes.Compare is the lexicographic comparison; the propositional combination of the six cases. Not decided: documents, JSON, "
         "protobuf conversions, map-backed metadata sets.",
         "DESIGN.md 3 (C15)"),
 "C16": ("No-panic sweep with loop invariants over the decoding entry points: store (TxHeader/TxMetadata/KVMetadata ReadFrom, attribute "
         "deserialisers, tx-log readHeader/readEntry, ReplicateTx parse phase), appendable (Metadata, Reader), tbtree node readers and cLogEntry, "
         "sql value/key/catalog-key decoders and the index entry mapper, pgsql wire message parsers, stream receivers, protobuf proof converters: "
         "every index/slice/nil/make/division/type-assertion/explicit-panic site is an obligation for all inputs and iteration counts; loops that "
         "consume input carry termination measures. Not decided: the goyacc SQL parser, protobuf/gRPC/compress libraries, memory bounds without a cap in the code.",
         "DESIGN.md 3 (C16)"),
 "C18": ("Typestate over the RPC handlers of pkg/server: every invocation of a database.DB method in a handler (and in the helpers inlined into "
         "it) is checked against the class of that method taken from the property statement (mutating: RW/Admin/SysAdmin; reading: additionally R; "
         "administrative: Admin/SysAdmin; mutating methods never on the system database), where the levels the caller may hold come from the "
         "permission table row of the method name the handler passes to the gate (tables extracted from pkg/auth/permissions.go on every run); "
         "the gate itself is verified to hand out the system database only for methods of the maintenance table. Known finding: eleven mutating RPCs are "
         "in that table. Not decided: authentication/sessions/expiry/re-permissioning, interceptors, the server-scoped gate (user and database management).",
         "DESIGN.md 3 (C18), 9.4"),
 "C17": ("singleapp.AppendableFile: every public method preserves the representation invariant, never panics, and meets the size arithmetic of a "
         "byte log (Append returns the previous size and grows it by the bytes written; SetOffset(o) truncates to o or fails without effect; "
         "flush/sync/ReadAt/DiscardUpto leave the size unchanged in every outcome; ReadAt returns at most size-off bytes); multiapp routes offsets "
         "to chunk off/fileSize at inner offset off%fileSize, Append splits at multiples of fileSize and terminates. Byte CONTENTS of the in-memory part (write buffer): "
         "write/Append of data that fits the free buffer space store exactly the given bytes behind the unflushed window and leave every older byte of the window unchanged, and return the logical offset of the first new byte; "
         "SetOffset keeps a prefix of the window; readAt: a read that starts in the file part and reaches into the window returns the FIRST window byte at the right position (quantifier-free instance c17c_span1: the clause that exposed a defect, repaired), "
         "and ReadAt of a range that lies completely in the window is complete and error-free; harness: Append that fits the buffer followed by ReadAt at the returned offset succeeds in full. "
         "The general clauses (EVERY byte at or beyond the flushed offset is the window byte at that position; rewind-append-read harness) are written and were discharged once but are unstable in solver time: kept as drafts, NOT in force, not claimed. "
         "Not decided: bytes of the FILE part (no ghost file), appends that flush inside the call (size arithmetic only), reopen persistence, compression, remote storage; some valid content obligations are excluded for solver time and listed in the evidence.",
         "DESIGN.md 3 (C17)"),
}

def main():
    props = [json.loads(l) for l in open(V + '/properties.jsonl')]
    old = json.load(open(V + '/MANIFEST.json'))
    checks, na = [], []
    na_reasons = json.load(open(V + '/tools/not_applicable.json'))
    for p in props:
        pid = p['id']
        if pid in CLAIMS and os.path.exists(f'{V}/props/{pid}.json'):
            text, ref = CLAIMS[pid]
            checks.append({
                "property_id": pid,
                "quick_cmd": f"/verif/check.sh {pid} quick",
                "thorough_cmd": f"/verif/check.sh {pid} thorough",
                "evidence_file": f"/verif/evidence/{pid}.json",
                "replay_cmd_template": "/verif/tools/replay.sh {path}",
                "engine": "govc",
                "level_claimed": {"category": "proof", "text": text, "design_ref": ref},
                "level_note": COMMON_NOTE,
                "technique": TECH,
            })
        else:
            na.append({"property_id": pid, "reason": na_reasons.get(pid, "no check registered yet (build in progress); see DESIGN.md")})
    commits = subprocess.run(['git', '-C', '/repo', 'log', '--format=%h %s', 'e1e8f8e..HEAD'], capture_output=True, text=True).stdout.strip().split('\n')
    hook_commits = [c.split()[0] for c in commits if c.split(' ', 1)[1].startswith('verif:')]
    m = {
        "version": 1,
        "setup_cmd": "cd /verif && . ./env.sh && mkdir -p bin && cd govc && go build -o ../bin/govc .",
        "hooks": {"guard": "verif",
                  "enable": "go build -tags verif: the contract files zz_verif_contracts*.go (comments + spec/harness functions) exist only under the tag",
                  "baseline_off_cmd": old["hooks"]["baseline_off_cmd"],
                  "source_commits": hook_commits, "add_only": True},
        "engines": [{"name": "govc", "path": "/verif/govc", "serves_properties": [c["property_id"] for c in checks],
                     "kind_free_text": "self-built deductive verifier for Go: go/ssa of /repo's working tree -> verification conditions (bit-vector integers, component heap model with type-based separation, contracts from zz_verif_contracts*.go under build tag verif) -> one SMT query per obligation (z3 5.1 / z3 4.8 / cvc5, CPU-time limits); counter-models replayed on the real code with go test -overlay; engine self-test corpus in /verif/selftest"}],
        "checks": checks,
        "notes": ("fix commits and known findings: /verif/known_findings.txt; seeded changes and which checks catch them: /verif/seeded/*/meta.json and DESIGN.md "
                  "section 10; engine self-test (known-verdict corpus incl. replay canaries): /verif/selftest/run.sh, run after every engine change; property "
                  "configurations: /verif/props/<id>.json generated from /verif/props/own and /verif/props/parts by tools/merge_props.py; thorough tier = 6x solver "
                  "limits + cross-check of every unsat by a second solver + thorough-only units; replay files: /verif/replays/<id>/, run with /verif/tools/replay.sh"),
        "not_applicable": na,
    }
    json.dump(m, open(V + '/MANIFEST.json', 'w'), indent=1)
    print(len(checks), "checks;", len(na), "not applicable/unclaimed")

main()
