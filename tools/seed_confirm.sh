#!/bin/bash
# usage: seed_confirm.sh <src dir with patch.diff, demo/, meta.json> <seed id e.g. C16-1> <property> [check...]
# Confirms a seeded change in a scratch worktree of /repo HEAD (outside /repo and /verif), runs the registered check(s)
# of the property against it, and stores the result under /verif/seeded/<seed id>/.
set -u
. /verif/env.sh
src=$1; sid=$2; prop=$3; shift 3
wt=/tmp/seedwt/$sid
rm -rf "$wt"; git -C /repo worktree prune
git -C /repo worktree add -q --detach "$wt" HEAD || exit 2
out=/verif/seeded/$sid; mkdir -p "$out"; cp "$src/patch.diff" "$out/"; cp -r "$src/demo" "$out/" 2>/dev/null; cp "$src/meta.json" "$out/agent_meta.json"
cd "$wt"
demo_path=$(python3 -c "import json;print(json.load(open('$src/meta.json'))['demo_path_in_repo'])")
demo_cmd=$(python3 -c "import json;print(json.load(open('$src/meta.json'))['demo_cmd'])")
demo_files=$(find "$src/demo" -type f)
pkgs=$(grep '^+++ b/' "$src/patch.diff" | sed 's|+++ b/||' | xargs -n1 dirname | sort -u | sed 's|^|./|' | tr '\n' ' ')
log="$out/confirm.log"; : > "$log"
res() { echo "$1" | tee -a "$log"; }
git apply "$src/patch.diff" 2>>"$log" || { res "APPLY-FAILED"; cd /; git -C /repo worktree remove --force "$wt"; exit 3; }
go build ./... >>"$log" 2>&1 && res "build: ok" || res "build: FAILED"
t0=$(date +%s)
go test -vet=off -count=1 -timeout 20m $pkgs 2>&1 | grep -E "^(ok|FAIL|---|panic)" | grep -v "should_fail_with_permission_denied" >> "$log"
# root-only baseline failures of the pinned commit (they expect permission errors): TestImmudbStoreEdgeCases, TestOpenFail (ahtree), TestInvalidOpening (tbtree)
existing_fail=$(grep -E "^--- FAIL" "$log" | grep -v -E "TestImmudbStoreEdgeCases|TestOpenFail|TestInvalidOpening" | wc -l)
res "existing tests of $pkgs with patch: failing tests (besides the root-only permission test) = $existing_fail ($(( $(date +%s)-t0 )) s)"
mkdir -p "$(dirname "$demo_path")"; placed=""
for f in $demo_files; do cp "$f" "$(dirname "$demo_path")/$(basename "$f")"; placed="$placed $(dirname "$demo_path")/$(basename "$f")"; done
( timeout 300 bash -c "$demo_cmd" ) >>"$log" 2>&1; with=$?
res "demo with patch: exit $with (expected non-zero)"
git apply -R "$src/patch.diff"
( timeout 300 bash -c "$demo_cmd" ) >>"$log" 2>&1; without=$?
res "demo without patch: exit $without (expected 0)"
rm -f $placed
git apply "$src/patch.diff"
# run the checks against the patched scratch tree
detected=""
for p in $prop "$@"; do
  GOVC_REPO="$wt" GOVC_VERIF_EVIDENCE=/tmp/seedwt/ev /verif/bin/govc check -prop $p -tier quick -noevidence > "$out/check_$p.out" 2>&1; rc=$?
  v=$(grep -c '^VIOLATION' "$out/check_$p.out")
  res "check $p on patched tree: exit $rc, $v VIOLATION lines"
  [ $rc -eq 1 ] && detected="$detected $p"
done
cd /; git -C /repo worktree remove --force "$wt"
python3 - "$out" "$sid" "$prop" "$existing_fail" "$with" "$without" "$detected" <<'PY'
import json,sys
out,sid,prop,ef,w,wo,det=sys.argv[1:8]
am=json.load(open(out+'/agent_meta.json'))
m={"seed":sid,"property":prop,"title":am.get("title"),"what_breaks":am.get("what_breaks"),"needs_to_manifest":am.get("needs_to_manifest"),
   "demo_path_in_repo":am.get("demo_path_in_repo"),"demo_cmd":am.get("demo_cmd"),
   "confirmed":{"existing_tests_failing_with_patch":int(ef),"demo_exit_with_patch":int(w),"demo_exit_without_patch":int(wo),
                "confirmed": int(ef)==0 and int(w)!=0 and int(wo)==0},
   "what_i_ran":"tools/seed_confirm.sh: scratch worktree of /repo HEAD; git apply; go build ./...; go test of the touched packages; demo with and without the patch; registered quick checks with GOVC_REPO=<scratch tree>",
   "detected_by":det.split()}
json.dump(m,open(out+'/meta.json','w'),indent=1)
print(json.dumps(m["confirmed"]), "detected_by", m["detected_by"])
PY
