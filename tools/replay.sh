#!/bin/bash
# usage: replay.sh <replay file written by a check (…/replays/<id>/<obligation>.go.txt)>
# Prints the failed obligation and the verifier's output recorded in the file; if the file carries a Go test (a
# counter-model turned into inputs) runs it against /repo's working tree with `go test -overlay` (nothing is written
# into /repo). Exit 1 if the real code fails on that input (REPLAY-CONFIRMED), 0 otherwise.
set -u
f=${1:?replay file}
. /verif/env.sh
repo=${GOVC_REPO:-/repo}
grep -m 12 '^// ' "$f"
pkg=$(grep -m1 '^// run with:' "$f" | sed -n 's/.* -run TestVerifReplay \.\/\(.*\)$/\1/p')
if [ -z "$pkg" ] || ! grep -q '^func TestVerifReplay' "$f"; then echo "no executable counter-model in this file (no-failing-input-found)"; exit 0; fi
tmp=$(mktemp -d); trap 'rm -rf "$tmp"' EXIT
sed '/^\/\/ replay result:/,$d' "$f" > "$tmp/zz_verif_replay_test.go"
printf '{"Replace":{"%s/%s/zz_verif_replay_test.go":"%s/zz_verif_replay_test.go"}}' "$repo" "$pkg" "$tmp" > "$tmp/ov.json"
out=$(cd "$repo" && go test -tags verif -overlay "$tmp/ov.json" -vet=off -count=1 -timeout 60s -run '^TestVerifReplay$' "./$pkg" 2>&1)
echo "$out" | tail -15
if echo "$out" | grep -q "REPLAY-CONFIRMED\|REPLAY-PANIC\|panic:\|test timed out"; then echo "replay: the real code FAILS on the counter-model"; exit 1; fi
echo "replay: the real code does not fail on this input"; exit 0
