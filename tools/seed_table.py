#!/usr/bin/env python3
"""Regenerates the seeded-change table of DESIGN.md section 10 from /verif/seeded/*/meta.json (+ optional why_missed.json)."""
import json, glob, os, re
V = '/verif'
why = {}
if os.path.exists(V + '/seeded/why_missed.json'):
    why = json.load(open(V + '/seeded/why_missed.json'))
rows = []
for d in sorted(glob.glob(V + '/seeded/C*-*')):
    mf = d + '/meta.json'
    if not os.path.exists(mf):
        continue
    m = json.load(open(mf))
    sid = m['seed']
    conf = m.get('confirmed', {}).get('confirmed')
    det = m.get('detected_by', [])
    obl = ''
    for p in det:
        f = f'{d}/check_{p}.out'
        if os.path.exists(f):
            names = re.findall(r'obligation=(\S+)', open(f).read())
            if names:
                obl = names[0] + (f' (+{len(names)-1})' if len(names) > 1 else '')
    title = (m.get('title') or '').replace('|', '/')
    if len(title) > 110:
        title = title[:107] + '...'
    res = ('**caught** by ' + ','.join(det) + ': `' + obl + '`') if det else ('missed: ' + why.get(sid, 'outside the claimed clauses'))
    if not conf:
        res = 'not confirmed (' + json.dumps(m.get('confirmed')) + ')'
    rows.append(f'| {sid} | {title} | {res} |')
table = '| seed | change | result of the registered quick check |\n|---|---|---|\n' + '\n'.join(rows)
p = V + '/DESIGN.md'
s = open(p).read()
if 'SEED-TABLE-PLACEHOLDER' in s:
    s = s.replace('SEED-TABLE-PLACEHOLDER', '<!-- seed table begin -->\n' + table + '\n<!-- seed table end -->')
else:
    s = re.sub(r'<!-- seed table begin -->.*?<!-- seed table end -->', lambda _: '<!-- seed table begin -->\n' + table + '\n<!-- seed table end -->', s, flags=re.S)
open(p, 'w').write(s)
caught = sum('**caught**' in r for r in rows)
print(len(rows), 'seeds,', caught, 'caught')
