module govc

go 1.25.0

require golang.org/x/tools v0.44.0

require (
	golang.org/x/mod v0.35.0 // indirect
	golang.org/x/sync v0.20.0 // indirect
)
