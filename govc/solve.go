package main

import (
	"bytes"
	"context"
	"fmt"
	"os"
	"os/exec"
	"path/filepath"
	"regexp"
	"strings"
	"sync"
	"time"
)

type result struct {
	obl    obligation
	status string // unsat (discharged), sat, unknown, timeout, vacuous
	solver string
	secs   float64
	model  map[string]string
	file   string
	bytes  int
	rawOut string
}

var symRe = regexp.MustCompile(`[A-Za-z_][A-Za-z0-9_]*![0-9]+`)

type assertion struct {
	text string
	def  string   // defined symbol for (assert (= sym term)), else ""
	syms []string // symbols mentioned (excluding def)
}

func analyse(text string) assertion {
	a := assertion{text: text}
	body := strings.TrimPrefix(text, "(assert ")
	if strings.HasPrefix(body, "(= ") {
		rest := body[3:]
		if i := strings.IndexByte(rest, ' '); i > 0 {
			cand := rest[:i]
			if symRe.FindString(cand) == cand {
				a.def = cand
			}
		}
	}
	seen := map[string]bool{}
	for _, m := range symRe.FindAllString(text, -1) {
		if m != a.def && !seen[m] {
			seen[m] = true
			a.syms = append(a.syms, m)
		}
	}
	return a
}

type solverSpec struct {
	name string
	args func(file string, timeout int) []string
}

var solvers = []solverSpec{
	{"z3-new", func(f string, t int) []string { return []string{"z3-new", fmt.Sprintf("-T:%d", t), f} }},
	{"z3", func(f string, t int) []string { return []string{"z3", fmt.Sprintf("-T:%d", t), f} }},
	// z3 5.1 without relevancy propagation: decides lambda-heavy (havoc) queries the default configuration does not
	{"z3-new-r0", func(f string, t int) []string { return []string{"z3-new", fmt.Sprintf("-T:%d", t), "smt.relevancy=0", f} }},
	{"cvc5", func(f string, t int) []string {
		return []string{"cvc5", "--produce-models", fmt.Sprintf("--tlimit=%d", t*1000), f}
	}},
}

// runSolver limits the solver by CPU time (ulimit -t), not wall time, so that a loaded machine does not turn
// dischargeable obligations into timeouts; the wall-clock limit is only a backstop (8x).
func runSolver(s solverSpec, file string, timeout int) (string, string) {
	return runSolverCtx(context.Background(), s, file, timeout)
}

func runSolverCtx(parent context.Context, s solverSpec, file string, timeout int) (string, string) {
	wall := timeout*8 + 5
	ctx, cancel := context.WithTimeout(parent, time.Duration(wall)*time.Second)
	defer cancel()
	a := s.args(file, wall)
	sh := fmt.Sprintf("ulimit -t %d; exec \"$@\"", timeout+1)
	cmd := exec.CommandContext(ctx, "sh", append([]string{"-c", sh, "sh"}, a...)...)
	var out bytes.Buffer
	cmd.Stdout = &out
	cmd.Stderr = &out
	cmd.Run()
	txt := strings.TrimSpace(out.String())
	first := strings.SplitN(txt, "\n", 2)[0]
	switch first {
	case "sat", "unsat", "unknown":
		return first, txt
	case "timeout":
		return "timeout", txt
	}
	if first == "" || ctx.Err() != nil || strings.Contains(txt, "CPU time limit") {
		return "timeout", txt
	}
	if cmd.ProcessState != nil && !cmd.ProcessState.Success() && first != "sat" && first != "unsat" && first != "unknown" {
		// killed by the CPU limit (SIGXCPU/SIGKILL) before printing an answer
		if ws := cmd.ProcessState.String(); strings.Contains(ws, "signal") || strings.Contains(ws, "killed") {
			return "timeout", txt
		}
	}
	return "error", txt
}

var (
	solverSem     chan struct{} // shared by all units: total number of concurrent solver processes
	solverSemOnce sync.Once
)

type dischargeOpts struct {
	dir      string
	timeout  int
	parallel int
	cross    bool // thorough: second solver cross-check
	keep     bool
}

// discharge builds one sliced SMT query per obligation and runs the solvers.
func (g *gen) discharge(base string, opt dischargeOpts) []result {
	as := make([]assertion, len(g.asserts))
	defOf := map[string][]int{}
	for i, t := range g.asserts {
		as[i] = analyse(t)
		if as[i].def != "" {
			defOf[as[i].def] = append(defOf[as[i].def], i)
		}
	}
	// index non-definition assertions by symbol
	usedBy := map[string][]int{}
	for i := range as {
		if as[i].def == "" {
			for _, s := range as[i].syms {
				usedBy[s] = append(usedBy[s], i)
			}
		}
	}
	declOf := map[string]string{}
	var otherDecls []string
	for _, d := range g.decls {
		if strings.HasPrefix(d, "(declare-const ") {
			m := symRe.FindString(d)
			if m != "" && strings.HasPrefix(d, "(declare-const "+m+" ") {
				declOf[m] = d
				continue
			}
		}
		otherDecls = append(otherDecls, d)
	}
	oas := make([]assertion, len(g.obls))
	oblUsedBy := map[string][]int{}
	for k, o := range g.obls {
		oas[k] = analyse("(assert (=> " + o.guard + " " + o.cond + "))")
		if !o.cover && !strings.Contains(o.cond, "(forall") && !strings.Contains(o.cond, "(exists") {
			for _, s := range oas[k].syms {
				oblUsedBy[s] = append(oblUsedBy[s], k)
			}
		}
	}
	// leaf symbols (undefined constants) each symbol depends on, for the "sibling term" rule below
	leafMemo := map[string][]string{}
	var leaves func(s string, depth int) []string
	leaves = func(s string, depth int) []string {
		if l, ok := leafMemo[s]; ok {
			return l
		}
		leafMemo[s] = nil // cycle guard
		ds := defOf[s]
		if len(ds) == 0 || depth > 60 {
			leafMemo[s] = []string{s}
			return leafMemo[s]
		}
		set := map[string]bool{}
		for _, i := range ds {
			for _, t := range as[i].syms {
				for _, l := range leaves(t, depth+1) {
					set[l] = true
				}
			}
		}
		var out []string
		for l := range set {
			out = append(out, l)
		}
		if len(out) > 64 {
			out = append(out[:64], "#many")
		}
		leafMemo[s] = out
		return out
	}
	type asmLeaves struct {
		idx    int
		leaves []string
	}
	var siblings []asmLeaves
	for i := range as {
		if as[i].def != "" || strings.Contains(as[i].text, "(forall") || len(as[i].syms) > 24 {
			continue
		}
		set := map[string]bool{}
		for _, s := range as[i].syms {
			for _, l := range leaves(s, 0) {
				set[l] = true
			}
		}
		if set["#many"] || len(set) > 48 {
			continue
		}
		var ls []string
		for l := range set {
			ls = append(ls, l)
		}
		siblings = append(siblings, asmLeaves{i, ls})
	}
	res := make([]result, len(g.obls))
	if g.replay != nil {
		g.replay.queryTerms() // computed once, before the workers start
	}
	var wg sync.WaitGroup
	solverSemOnce.Do(func() { solverSem = make(chan struct{}, opt.parallel) })
	sem := solverSem
	os.MkdirAll(opt.dir, 0o755)
	for k := range g.obls {
		wg.Add(1)
		go func(k int) {
			defer wg.Done()
			sem <- struct{}{}
			defer func() { <-sem }()
			o := g.obls[k]
			if o.excluded {
				res[k] = result{obl: o, status: "excluded"}
				return
			}
			need := map[string]bool{}
			var work []string
			add := func(ss []string) {
				for _, s := range ss {
					if !need[s] {
						need[s] = true
						work = append(work, s)
					}
				}
			}
			add(oas[k].syms)
			for _, st := range o.show {
				add(symRe.FindAllString(st.term, -1))
			}
			incl := make([]bool, len(as))
			for i := range as {
				if len(as[i].syms) == 0 && as[i].def == "" && i < o.nAsserts {
					incl[i] = true // ground axioms (no symbols), e.g. class facts
				}
			}
			inclO := make([]bool, k)
			for len(work) > 0 {
				s := work[len(work)-1]
				work = work[:len(work)-1]
				for _, i := range defOf[s] {
					if !incl[i] && i < o.nAsserts {
						incl[i] = true
						add(as[i].syms)
					}
				}
				for _, i := range usedBy[s] {
					if !incl[i] && i < o.nAsserts {
						incl[i] = true
						add(as[i].syms)
					}
				}
				for _, j := range oblUsedBy[s] {
					if j < k && !inclO[j] {
						inclO[j] = true
						add(oas[j].syms)
					}
				}
			}
			// sibling rule: an assumption that only talks about terms built from needed leaf symbols is relevant even
			// if it names them through other SSA values (e.g. a fact about an earlier load of the same location)
			for pass := 0; pass < 2 && os.Getenv("GOVC_NOSIB") == ""; pass++ {
				added := false
				for _, sa := range siblings {
					if incl[sa.idx] || sa.idx >= o.nAsserts {
						continue
					}
					ok := true
					for _, l := range sa.leaves {
						if !need[l] {
							ok = false
							break
						}
					}
					if ok {
						incl[sa.idx] = true
						add(as[sa.idx].syms)
						added = true
					}
				}
				for len(work) > 0 {
					s := work[len(work)-1]
					work = work[:len(work)-1]
					for _, i := range defOf[s] {
						if !incl[i] && i < o.nAsserts {
							incl[i] = true
							add(as[i].syms)
						}
					}
					for _, i := range usedBy[s] {
						if !incl[i] && i < o.nAsserts {
							incl[i] = true
							add(as[i].syms)
						}
					}
				}
				if !added {
					break
				}
			}
			var sb strings.Builder
			sb.WriteString(prelude())
			for _, d := range otherDecls {
				sb.WriteString(d + "\n")
			}
			// symbols that only the (get-value ...) terms of the replay mention (entry state the sliced query does not
			// constrain) must still be declared, or the solver rejects the whole get-value command
			showSyms := map[string]bool{}
			if !o.cover {
				for _, st := range o.show {
					for _, m := range symRe.FindAllString(st.term, -1) {
						showSyms[m] = true
					}
				}
				if g.replay != nil {
					for _, t := range g.replay.queryTerms() {
						for _, m := range symRe.FindAllString(t, -1) {
							showSyms[m] = true
						}
					}
				}
			}
			for _, d := range g.decls {
				if strings.HasPrefix(d, "(declare-const ") {
					if m := symRe.FindString(d); m != "" && declOf[m] == d && (need[m] || showSyms[m]) {
						sb.WriteString(d + "\n")
					}
				}
			}
			for i := range as {
				if incl[i] {
					sb.WriteString(as[i].text + "\n")
				}
			}
			for j := 0; j < k; j++ {
				if inclO[j] {
					sb.WriteString(oas[j].text + "\n")
				}
			}
			if o.cover {
				fmt.Fprintf(&sb, "(assert (and %s %s))\n", o.guard, o.cond)
			} else {
				fmt.Fprintf(&sb, "(assert (and %s (not %s)))\n", o.guard, o.cond)
			}
			sb.WriteString("(check-sat)\n")
			var shows []string
			for _, st := range o.show {
				shows = append(shows, st.term)
			}
			if g.replay != nil && !o.cover {
				shows = append(shows, g.replay.queryTerms()...)
			}
			query := sb.String()
			withModel := query
			if len(shows) > 0 {
				withModel += fmt.Sprintf("(get-value (%s))\n", strings.Join(shows, " "))
			}
			file := filepath.Join(opt.dir, fmt.Sprintf("%s_%03d.smt2", base, k))
			os.WriteFile(file, []byte(withModel), 0o644)
			r := result{obl: o, file: file, bytes: len(withModel)}
			t0 := time.Now()
			hasLambda := strings.Contains(query, "(lambda ")
			want := "unsat"
			if o.cover {
				want = "sat"
			}
			tmo := opt.timeout
			if o.cover && tmo > 5 {
				tmo = 5 // reachability checks are informational unless they come back unsat (vacuous)
			}
			// stage 1: the default solver with a short limit (most queries take well under a second); stage 2: a race of
			// all configurations with the full limit, first definite answer wins and the others are killed
			stage1 := tmo
			if !o.cover && stage1 > 8 {
				stage1 = 8
			}
			st, out := runSolver(solvers[0], file, stage1)
			r.solver = solvers[0].name
			if st != want && st != "sat" && st != "unsat" && !o.cover {
				type ans struct{ st, out, name string }
				ch := make(chan ans, len(solvers))
				rctx, rcancel := context.WithCancel(context.Background())
				n := 0
				for i, s := range solvers {
					if s.name == "cvc5" && hasLambda {
						continue // cvc5 cannot parse z3 lambda arrays
					}
					if i == 0 && stage1 >= opt.timeout {
						continue // already had the full limit
					}
					n++
					go func(s solverSpec) {
						st2, out2 := runSolverCtx(rctx, s, file, opt.timeout)
						ch <- ans{st2, out2, s.name}
					}(s)
				}
				for i := 0; i < n; i++ {
					a := <-ch
					if a.st == "sat" || a.st == "unsat" {
						st, out, r.solver = a.st, a.out, a.name
						break
					}
				}
				rcancel()
			}
			r.secs = time.Since(t0).Seconds()
			r.rawOut = out
			if len(r.rawOut) > 4000 {
				r.rawOut = r.rawOut[:4000]
			}
			switch {
			case o.cover && st == "sat":
				r.status = "unsat" // covered
			case o.cover && st == "unsat":
				r.status = "vacuous"
			case o.cover:
				r.status = "cover-unknown"
			default:
				r.status = st
			}
			if st == "sat" && !o.cover {
				r.model = parseModel(out, shows)
			}
			if opt.cross && r.status == "unsat" && !o.cover {
				// cross-check with a second solver: a sat answer is an engine error
				for _, s := range solvers {
					if (s.name == "cvc5" && hasLambda) || s.name == r.solver || s.name == "z3-new-r0" || (r.solver == "z3-new-r0" && s.name == "z3-new") {
						continue
					}
					ct := opt.timeout
					if ct > 20 {
						ct = 20 // the cross-check is a sanity check of the answer, not a second proof attempt
					}
					st2, _ := runSolver(s, file, ct)
					if st2 == "sat" {
						r.status = "solver-disagreement"
					}
					break
				}
			}
			if !opt.keep && r.status == "unsat" {
				os.Remove(file)
			}
			res[k] = r
		}(k)
	}
	wg.Wait()
	out := res[:0]
	for _, r := range res {
		if r.status != "excluded" {
			out = append(out, r)
		}
	}
	return out
}

// parseModel parses the (get-value ...) answer: ((term value) ...)
func parseModel(out string, shows []string) map[string]string {
	m := map[string]string{}
	i := strings.Index(out, "\n")
	if i < 0 {
		return m
	}
	body := out[i+1:]
	// tokenise s-expressions at depth 2
	depth := 0
	start := -1
	var items []string
	for p := 0; p < len(body); p++ {
		switch body[p] {
		case '(':
			depth++
			if depth == 2 {
				start = p
			}
		case ')':
			if depth == 2 && start >= 0 {
				items = append(items, body[start:p+1])
				start = -1
			}
			depth--
		}
	}
	for idx, it := range items {
		if idx >= len(shows) {
			break
		}
		inner := strings.TrimSpace(it[1 : len(it)-1])
		term := shows[idx]
		v := lastSexpr(inner)
		m[term] = v
	}
	return m
}

func normWS(s string) string { return strings.Join(strings.Fields(s), " ") }

// lastSexpr returns the last top-level s-expression or atom of s.
func lastSexpr(s string) string {
	s = strings.TrimSpace(s)
	if s == "" {
		return s
	}
	if s[len(s)-1] == ')' {
		d := 0
		for p := len(s) - 1; p >= 0; p-- {
			if s[p] == ')' {
				d++
			} else if s[p] == '(' {
				d--
				if d == 0 {
					return s[p:]
				}
			}
		}
		return s
	}
	p := strings.LastIndexAny(s, " \n\t)")
	return s[p+1:]
}
