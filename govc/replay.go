package main

import (
	"encoding/json"
	"fmt"
	"go/ast"
	"go/types"
	"os"
	"os/exec"
	"path/filepath"
	"strconv"
	"strings"
	"time"

	"golang.org/x/tools/go/ssa"
)

// replayInfo describes the inputs of the function under verification so that a counter-model can be turned into a Go test.
type replayInfo struct {
	fn     *ssa.Function
	heap   heap
	ac     string
	params []replayParam
	terms  []string
}

type replayParam struct {
	name string
	ty   types.Type
	v    *val
}

const replayBytes = 600 // bytes of each byte slice read back from the model
const replayElems = 6   // elements of each slice of byte arrays / structs

// collect builds, for a value of type t, the SMT terms needed to print it as a Go literal.
func (ri *replayInfo) collect(t types.Type, v *val, depth int, out *[]string) {
	add := func(ts ...string) { *out = append(*out, ts...) }
	switch v.k {
	case kInt, kBool, kArr, kFloat:
		add(v.t[0])
	case kPtr:
		add(v.t[0], v.t[1])
		if pt, ok := t.Underlying().(*types.Pointer); ok && depth < 3 && ri.heap["HB"] != "" {
			ri.collectMem(pt.Elem(), v.t[0], v.t[1], depth+1, out)
		}
	case kSlice:
		add(v.t...)
		if ri.heap["HB"] == "" {
			return
		}
		var et types.Type = types.Typ[types.Uint8]
		if sl, ok := t.Underlying().(*types.Slice); ok {
			et = sl.Elem()
		}
		if w, _, ok := intW(et); ok && w == 8 {
			for i := 0; i < replayBytes; i++ {
				add(sel(ri.heap["HB"], v.t[0], addOff(v.t[1], int64(i))))
			}
		} else if depth < 3 {
			es := slots(et)
			for i := 0; i < replayElems; i++ {
				ri.collectMem(et, v.t[0], addOff(v.t[1], int64(i)*es), depth+1, out)
			}
		}
	case kIface, kOpaque:
		add(v.t...)
	case kStruct:
		st := t.Underlying().(*types.Struct)
		for i, e := range v.elems {
			ri.collect(st.Field(i).Type(), e, depth, out)
		}
	}
}

func (ri *replayInfo) collectMem(t types.Type, ref, off string, depth int, out *[]string) {
	add := func(ts ...string) { *out = append(*out, ts...) }
	h := ri.heap
	if w, _, ok := intW(t); ok {
		if w == 8 {
			add(sel(h["HB"], ref, off))
		} else {
			add(sel(h["HW"], ref, off))
		}
		return
	}
	if _, ok := isFloat(t); ok {
		add(sel(h["HW"], ref, off))
		return
	}
	switch u := t.Underlying().(type) {
	case *types.Basic:
		if u.Info()&types.IsBoolean != 0 {
			add(sel(h["HW"], ref, off))
		} else if u.Info()&types.IsString != 0 {
			v := &val{k: kSlice, t: []string{sel(h["HSr"], ref, off), sel(h["HSo"], ref, off), sel(h["HSl"], ref, off), sel(h["HSl"], ref, off)}}
			if depth < 3 {
				ri.collect(t, v, depth, out)
			}
		}
	case *types.Pointer:
		v := &val{k: kPtr, t: []string{sel(h["HPr"], ref, off), sel(h["HPo"], ref, off)}}
		if depth < 3 {
			ri.collect(t, v, depth, out)
		} else {
			add(v.t...)
		}
	case *types.Slice:
		v := &val{k: kSlice, t: []string{sel(h["HSr"], ref, off), sel(h["HSo"], ref, off), sel(h["HSl"], ref, off), sel(h["HSc"], ref, off)}}
		if depth < 3 {
			ri.collect(t, v, depth, out)
		} else {
			add(v.t...)
		}
	case *types.Array:
		if n, ok := isByteArray(t); ok {
			for i := 0; i < n; i++ {
				add(sel(h["HB"], ref, addOff(off, int64(i))))
			}
		} else if u.Len() <= 4 {
			es := slots(u.Elem())
			for i := int64(0); i < u.Len(); i++ {
				ri.collectMem(u.Elem(), ref, addOff(off, i*es), depth, out)
			}
		}
	case *types.Struct:
		for i := 0; i < u.NumFields(); i++ {
			ri.collectMem(u.Field(i).Type(), ref, addOff(off, fieldOff(u, i)), depth, out)
		}
	case *types.Map, *types.Chan, *types.Signature:
		add(sel(h["HPr"], ref, off))
	case *types.Interface:
		add(sel(h["HIt"], ref, off))
	}
}

func (ri *replayInfo) queryTerms() []string {
	if ri.terms == nil {
		var out []string
		for _, p := range ri.params {
			ri.collect(p.ty, p.v, 0, &out)
		}
		seen := map[string]bool{}
		for _, t := range out {
			if !seen[t] && !isLiteral(t) && len(t) < 700 && len(ri.terms) < 5000 {
				seen[t] = true
				ri.terms = append(ri.terms, t)
			}
		}
		if ri.terms == nil {
			ri.terms = []string{}
		}
	}
	return ri.terms
}

func isLiteral(t string) bool {
	return strings.HasPrefix(t, "#x") || strings.HasPrefix(t, "#b") || t == "true" || t == "false" || t == "0" || strings.HasPrefix(t, "(_ bv") || strings.HasPrefix(t, "(- ")
}

// ---------------------------------------------------------------------------------------
// model values -> Go literals

type modelView struct {
	m map[string]string
}

func (mv modelView) raw(term string) string {
	if isLiteral(term) {
		return term
	}
	return mv.m[term]
}

func (mv modelView) uint(term string) (uint64, bool) {
	s := mv.raw(term)
	switch {
	case strings.HasPrefix(s, "#x"):
		if len(s) > 18 {
			return 0, false
		}
		n, err := strconv.ParseUint(s[2:], 16, 64)
		return n, err == nil
	case strings.HasPrefix(s, "#b"):
		n, err := strconv.ParseUint(s[2:], 2, 64)
		return n, err == nil
	case strings.HasPrefix(s, "(_ bv"):
		f := strings.Fields(s[5:])
		n, err := strconv.ParseUint(f[0], 10, 64)
		return n, err == nil
	}
	return 0, false
}

func (mv modelView) int(term string) (int64, bool) {
	s := strings.TrimSpace(mv.raw(term))
	if strings.HasPrefix(s, "(-") {
		s = strings.TrimSpace(strings.TrimSuffix(strings.TrimPrefix(s, "(-"), ")"))
		n, err := strconv.ParseInt(s, 10, 64)
		return -n, err == nil
	}
	n, err := strconv.ParseInt(s, 10, 64)
	return n, err == nil
}

func (mv modelView) wide(term string) ([]byte, bool) {
	s := mv.raw(term)
	if strings.HasPrefix(s, "#x") {
		h := s[2:]
		if len(h)%2 == 1 {
			h = "0" + h
		}
		out := make([]byte, len(h)/2)
		for i := range out {
			n, err := strconv.ParseUint(h[2*i:2*i+2], 16, 8)
			if err != nil {
				return nil, false
			}
			out[i] = byte(n)
		}
		return out, true
	}
	return nil, false
}

type litGen struct {
	ri   *replayInfo
	mv   modelView
	pkg  *types.Package
	ok   bool
	note []string
}

func (lg *litGen) typeStr(t types.Type) string {
	return types.TypeString(t, func(p *types.Package) string {
		if p == lg.pkg {
			return ""
		}
		return p.Name()
	})
}

func byteLit(bs []byte) string {
	parts := make([]string, len(bs))
	for i, b := range bs {
		parts[i] = fmt.Sprintf("0x%02x", b)
	}
	return strings.Join(parts, ", ")
}

// unconstrained: the (sliced) query does not mention the term, so the counter-model does not depend on it: any value
// will do and the replay uses the zero value. Literal terms never end up here.
func (lg *litGen) unconstrained(term string) {
	if len(lg.note) < 20 {
		lg.note = append(lg.note, "not constrained by the query, zero value used: "+term)
	}
}

func (lg *litGen) lit(t types.Type, v *val, depth int) string {
	switch v.k {
	case kInt:
		n, ok := lg.mv.uint(v.t[0])
		if !ok {
			lg.unconstrained(v.t[0])
		}
		if v.signed || func() bool { _, s, _ := intW(t); return s }() {
			w, _, _ := intW(t)
			var sn int64
			switch w {
			case 8:
				sn = int64(int8(n))
			case 16:
				sn = int64(int16(n))
			case 32:
				sn = int64(int32(n))
			default:
				sn = int64(n)
			}
			return fmt.Sprintf("%s(%d)", lg.typeStr(t), sn)
		}
		return fmt.Sprintf("%s(%d)", lg.typeStr(t), n)
	case kFloat:
		n, ok := lg.mv.uint(v.t[0])
		if !ok {
			lg.unconstrained(v.t[0])
		}
		if v.w == 32 {
			return fmt.Sprintf("%s(math.Float32frombits(%d))", lg.typeStr(t), n)
		}
		return fmt.Sprintf("%s(math.Float64frombits(%d))", lg.typeStr(t), n)
	case kBool:
		return fmt.Sprintf("%s(%s)", lg.typeStr(t), lg.mv.raw(v.t[0]))
	case kArr:
		bs, ok := lg.mv.wide(v.t[0])
		n := v.w / 8
		if !ok {
			lg.unconstrained(v.t[0])
			bs = make([]byte, n)
		}
		for len(bs) < n {
			bs = append([]byte{0}, bs...)
		}
		return fmt.Sprintf("%s{%s}", lg.typeStr(t), byteLit(bs))
	case kPtr:
		ref, ok := lg.mv.int(v.t[0])
		if !ok {
			lg.unconstrained(v.t[0])
		}
		pt, isPtr := t.Underlying().(*types.Pointer)
		if ref == 0 || !isPtr || depth >= 3 {
			if ref != 0 {
				lg.note = append(lg.note, "deep pointer replaced by nil")
			}
			return "nil"
		}
		return "&" + lg.memLit(pt.Elem(), v.t[0], v.t[1], depth+1)
	case kSlice:
		ref, _ := lg.mv.int(v.t[0])
		ln, ok := lg.mv.uint(v.t[2])
		if !ok {
			lg.unconstrained(v.t[2])
		}
		if isString(t) {
			bs := lg.bytesAt(v, ln)
			return fmt.Sprintf("%s(%q)", lg.typeStr(t), string(bs))
		}
		if ref == 0 {
			return "nil"
		}
		if ln > 1<<20 {
			lg.ok = false
			lg.note = append(lg.note, "slice too large to replay")
			ln = 0
		}
		sl, _ := t.Underlying().(*types.Slice)
		if sl == nil {
			return "nil"
		}
		if w, _, ok := intW(sl.Elem()); ok && w == 8 {
			bs := lg.bytesAt(v, ln)
			cp, _ := lg.mv.uint(v.t[3])
			if cp > ln && cp < 1<<20 {
				return fmt.Sprintf("append(make(%s, 0, %d), %s)", lg.typeStr(t), cp, byteLit(bs))
			}
			return fmt.Sprintf("%s{%s}", lg.typeStr(t), byteLit(bs))
		}
		var elems []string
		es := slots(sl.Elem())
		for i := uint64(0); i < ln; i++ {
			if i >= replayElems {
				elems = append(elems, lg.zeroLit(sl.Elem()))
				continue
			}
			elems = append(elems, lg.memLit(sl.Elem(), v.t[0], addOff(v.t[1], int64(i)*es), depth+1))
		}
		return fmt.Sprintf("%s{%s}", lg.typeStr(t), strings.Join(elems, ", "))
	case kStruct:
		st := t.Underlying().(*types.Struct)
		var fs []string
		for i, e := range v.elems {
			if st.Field(i).Pkg() != lg.pkg && !st.Field(i).Exported() {
				continue
			}
			fs = append(fs, st.Field(i).Name()+": "+lg.lit(st.Field(i).Type(), e, depth))
		}
		return fmt.Sprintf("%s{%s}", lg.typeStr(t), strings.Join(fs, ", "))
	}
	return lg.zeroLit(t)
}

func (lg *litGen) zeroLit(t types.Type) string {
	switch t.Underlying().(type) {
	case *types.Pointer, *types.Slice, *types.Map, *types.Chan, *types.Signature, *types.Interface:
		return "nil"
	case *types.Struct, *types.Array:
		return lg.typeStr(t) + "{}"
	}
	if isString(t) {
		return `""`
	}
	if b, ok := t.Underlying().(*types.Basic); ok && b.Info()&types.IsBoolean != 0 {
		return "false"
	}
	return lg.typeStr(t) + "(0)"
}

func (lg *litGen) bytesAt(v *val, ln uint64) []byte {
	if ln > 1<<20 {
		ln = 0
	}
	bs := make([]byte, ln)
	for i := uint64(0); i < ln && i < replayBytes; i++ {
		n, _ := lg.mv.uint(sel(lg.ri.heap["HB"], v.t[0], addOff(v.t[1], int64(i))))
		bs[i] = byte(n)
	}
	if ln > replayBytes {
		lg.note = append(lg.note, fmt.Sprintf("only the first %d bytes of a %d-byte slice come from the model", replayBytes, ln))
	}
	return bs
}

func (lg *litGen) memLit(t types.Type, ref, off string, depth int) string {
	h := lg.ri.heap
	if w, s, ok := intW(t); ok {
		term := sel(h["HW"], ref, off)
		if w == 8 {
			term = sel(h["HB"], ref, off)
		}
		n, _ := lg.mv.uint(term)
		if w < 64 {
			n &= (1 << uint(w)) - 1
		}
		if s {
			var sn int64
			switch w {
			case 8:
				sn = int64(int8(n))
			case 16:
				sn = int64(int16(n))
			case 32:
				sn = int64(int32(n))
			default:
				sn = int64(n)
			}
			return fmt.Sprintf("%s(%d)", lg.typeStr(t), sn)
		}
		return fmt.Sprintf("%s(%d)", lg.typeStr(t), n)
	}
	if w, ok := isFloat(t); ok {
		n, _ := lg.mv.uint(sel(h["HW"], ref, off))
		if w == 32 {
			return fmt.Sprintf("%s(math.Float32frombits(%d))", lg.typeStr(t), uint32(n))
		}
		return fmt.Sprintf("%s(math.Float64frombits(%d))", lg.typeStr(t), n)
	}
	switch u := t.Underlying().(type) {
	case *types.Basic:
		if u.Info()&types.IsBoolean != 0 {
			n, _ := lg.mv.uint(sel(h["HW"], ref, off))
			return fmt.Sprintf("%s(%v)", lg.typeStr(t), n != 0)
		}
		if u.Info()&types.IsString != 0 {
			v := &val{k: kSlice, t: []string{sel(h["HSr"], ref, off), sel(h["HSo"], ref, off), sel(h["HSl"], ref, off), sel(h["HSl"], ref, off)}}
			if depth < 3 {
				return lg.lit(t, v, depth)
			}
			return `""`
		}
	case *types.Pointer:
		v := &val{k: kPtr, t: []string{sel(h["HPr"], ref, off), sel(h["HPo"], ref, off)}}
		if depth < 3 {
			return lg.lit(t, v, depth)
		}
		return "nil"
	case *types.Slice:
		v := &val{k: kSlice, t: []string{sel(h["HSr"], ref, off), sel(h["HSo"], ref, off), sel(h["HSl"], ref, off), sel(h["HSc"], ref, off)}}
		if depth < 3 {
			return lg.lit(t, v, depth)
		}
		return "nil"
	case *types.Array:
		if n, ok := isByteArray(t); ok {
			bs := make([]byte, n)
			for i := 0; i < n; i++ {
				x, _ := lg.mv.uint(sel(h["HB"], ref, addOff(off, int64(i))))
				bs[i] = byte(x)
			}
			return fmt.Sprintf("%s{%s}", lg.typeStr(t), byteLit(bs))
		}
		return lg.typeStr(t) + "{}"
	case *types.Struct:
		var fs []string
		for i := 0; i < u.NumFields(); i++ {
			f := u.Field(i)
			if f.Pkg() != lg.pkg && !f.Exported() {
				continue
			}
			switch f.Type().Underlying().(type) {
			case *types.Map, *types.Chan, *types.Signature, *types.Interface:
				continue
			}
			if named, ok := f.Type().(*types.Named); ok && named.Obj().Pkg() != nil && named.Obj().Pkg().Path() == "sync" {
				continue
			}
			fs = append(fs, f.Name()+": "+lg.memLit(f.Type(), ref, addOff(off, fieldOff(u, i)), depth))
		}
		return fmt.Sprintf("%s{%s}", lg.typeStr(t), strings.Join(fs, ", "))
	}
	return lg.zeroLit(t)
}

// ---------------------------------------------------------------------------------------

type replayOutcome struct {
	path      string
	confirmed bool
	detail    string
}

// writeReplay produces the replay file for a failed obligation and, when a model exists, runs it against the real code.
func writeReplay(w *world, g *gen, r result, prop, outDir string, run bool) replayOutcome {
	os.MkdirAll(outDir, 0o755)
	name := sanitizeSym(r.obl.name)
	if len(name) > 120 {
		name = name[:120]
	}
	path := filepath.Join(outDir, name+".go.txt")
	var sb strings.Builder
	fmt.Fprintf(&sb, "// REPLAY for property %s\n// failed obligation: %s\n// kind: %s   function under contract: %s   source: %s\n// solver: %s answered %q in %.2fs (query %s, %d bytes)\n",
		prop, r.obl.name, r.obl.kind, r.obl.fn, r.obl.pos, r.solver, r.status, r.secs, filepath.Base(r.file), r.bytes)
	for _, st := range r.obl.show {
		if v, ok := r.model[st.term]; ok {
			fmt.Fprintf(&sb, "// model: %s = %s\n", st.label, v)
		}
	}
	out := replayOutcome{path: path}
	ri := g.replay
	if r.status != "sat" || ri == nil || r.model == nil {
		fmt.Fprintf(&sb, "// no model (solver said %s): no failing input could be synthesised.\n// solver output:\n", r.status)
		for _, l := range strings.Split(r.rawOut, "\n") {
			if len(l) > 300 {
				l = l[:300] + "..."
			}
			fmt.Fprintf(&sb, "//   %s\n", l)
		}
		os.WriteFile(path, []byte(sb.String()), 0o644)
		out.detail = "no model"
		return out
	}
	pkg := ri.fn.Pkg.Pkg
	lg := &litGen{ri: ri, mv: modelView{r.model}, pkg: pkg, ok: true}
	var decl []string
	var argNames []string
	for i, p := range ri.params {
		vn := fmt.Sprintf("a%d", i)
		decl = append(decl, fmt.Sprintf("\tvar %s %s = %s // %s", vn, lg.typeStr(p.ty), lg.lit(p.ty, p.v, 0), p.name))
		argNames = append(argNames, vn)
	}
	var callExpr string
	fn := ri.fn
	if fn.Signature.Recv() != nil {
		callExpr = fmt.Sprintf("%s.%s(%s)", argNames[0], fn.Name(), strings.Join(argNames[1:], ", "))
	} else {
		callExpr = fmt.Sprintf("%s(%s)", fn.Name(), strings.Join(argNames, ", "))
	}
	if fn.Signature.Variadic() {
		callExpr = strings.TrimSuffix(callExpr, ")") + "...)"
	}
	imports := []string{"\"testing\"", "\"runtime/debug\""}
	body := strings.Join(decl, "\n")
	if strings.Contains(body, "math.Float") {
		imports = append(imports, "\"math\"")
	}
	for _, imp := range pkg.Imports() {
		if strings.Contains(body, imp.Name()+".") && imp.Name() != "math" {
			imports = append(imports, fmt.Sprintf("%q", imp.Path()))
		}
	}
	nres := fn.Signature.Results().Len()
	lhs := ""
	postCheck := ""
	if nres > 0 {
		var rs []string
		for i := 0; i < nres; i++ {
			rs = append(rs, fmt.Sprintf("r%d", i))
		}
		lhs = strings.Join(rs, ", ") + " := "
		for i := 0; i < nres; i++ {
			postCheck += fmt.Sprintf("\t_ = r%d\n", i)
		}
	}
	if r.obl.goPost != "" {
		if gp, ok := goPostExpr(r.obl.goPost, r.obl.goPostParams, fn); ok {
			postCheck += fmt.Sprintf("\tif !(%s) {\n\t\tt.Fatalf(\"REPLAY-CONFIRMED: postcondition violated: %%s\", %q)\n\t}\n", gp, r.obl.goPost)
		}
	}
	test := fmt.Sprintf(`package %s

import (
	%s
)

// Generated from the counter-model of obligation %q.
func TestVerifReplay(t *testing.T) {
	defer func() {
		if r := recover(); r != nil {
			t.Fatalf("REPLAY-PANIC: %%v\n%%s", r, debug.Stack())
		}
	}()
%s
	%s%s
%s	t.Log("REPLAY-RETURNED-NORMALLY")
}
`, pkg.Name(), strings.Join(imports, "\n\t"), r.obl.name, body, lhs, callExpr, postCheck)
	for _, n := range lg.note {
		fmt.Fprintf(&sb, "// note: %s\n", n)
	}
	replayable := lg.ok && ri.fn.Parent() == nil && !strings.Contains(fn.Name(), "$") &&
		(r.obl.kind == "safe" || r.obl.kind == "post" || r.obl.kind == "assert")
	if !replayable {
		fmt.Fprintf(&sb, "// the model could not be turned into Go values completely; test below is best effort and was not run.\n")
	}
	sb.WriteString("// run with: cd /repo && go test -tags verif -overlay <ov.json mapping " + relPkgDir(pkg) + "/zz_verif_replay_test.go to this file> -vet=off -run TestVerifReplay ./" + relPkgDir(pkg) + "\n\n")
	sb.WriteString(test)
	if replayable && run {
		ok, detail := runReplay(pkg, test)
		// a panic only confirms the obligation if it is the failure the obligation speaks about: the violated
		// postcondition, the harness assertion with this label, or a run-time panic at the obligation's source line
		// (inputs the query does not constrain are zero values and may crash elsewhere: that proves nothing)
		switch r.obl.kind {
		case "post":
			ok = ok && strings.Contains(detail, "postcondition violated")
		case "assert":
			lbl := r.obl.name[strings.LastIndex(r.obl.name, ":")+1:]
			if i := strings.Index(lbl, "#"); i >= 0 {
				lbl = lbl[:i]
			}
			ok = ok && strings.Contains(detail, "verifAssert violated: "+lbl)
		case "safe":
			site := r.obl.pos
			if i := strings.LastIndex(site, "/"); i >= 0 {
				site = site[i+1:]
			}
			ok = ok && site != "" && strings.Contains(detail, site)
		}
		out.confirmed = ok
		out.detail = detail
		fmt.Fprintf(&sb, "\n// replay result: confirmed=%v\n", ok)
		for _, l := range strings.Split(detail, "\n") {
			fmt.Fprintf(&sb, "//   %s\n", l)
		}
	} else {
		out.detail = "not replayable"
	}
	os.WriteFile(path, []byte(sb.String()), 0o644)
	return out
}

func relPkgDir(pkg *types.Package) string {
	return strings.TrimPrefix(strings.TrimPrefix(pkg.Path(), modulePath), "/")
}

func runReplay(pkg *types.Package, test string) (bool, string) {
	tmp, err := os.MkdirTemp("", "govc-replay")
	if err != nil {
		return false, err.Error()
	}
	defer os.RemoveAll(tmp)
	tf := filepath.Join(tmp, "zz_verif_replay_test.go")
	os.WriteFile(tf, []byte(test), 0o644)
	target := filepath.Join(repoDir, relPkgDir(pkg), "zz_verif_replay_test.go")
	ov, _ := json.Marshal(map[string]any{"Replace": map[string]string{target: tf}})
	ovf := filepath.Join(tmp, "ov.json")
	os.WriteFile(ovf, ov, 0o644)
	cmd := exec.Command("go", "test", "-tags", "verif", "-overlay", ovf, "-vet=off", "-count=1", "-timeout", "60s", "-run", "^TestVerifReplay$", "./"+relPkgDir(pkg))
	cmd.Dir = repoDir
	t0 := time.Now()
	outb, _ := cmd.CombinedOutput()
	out := string(outb)
	if len(out) > 3000 {
		out = out[:3000]
	}
	detail := fmt.Sprintf("go test took %.1fs\n%s", time.Since(t0).Seconds(), out)
	confirmed := strings.Contains(out, "REPLAY-CONFIRMED") || strings.Contains(out, "REPLAY-PANIC") || strings.Contains(out, "panic:") || strings.Contains(out, "test timed out")
	if strings.Contains(out, "[build failed]") || strings.Contains(out, "cannot use") {
		confirmed = false
	}
	return confirmed, detail
}

// goPostExpr turns a contract expression into an executable Go expression over the replay variables
// (a<i> for parameters, r<i> for results). Returns false for forms that have no executable counterpart.
func goPostExpr(src string, paramNames []string, fn *ssa.Function) (string, bool) {
	e, err := parseSpec(src)
	if err != nil {
		return "", false
	}
	ok := true
	ren := map[string]string{}
	for i, n := range paramNames {
		if n != "" && n != "_" {
			ren[n] = fmt.Sprintf("a%d", i)
		}
	}
	res := fn.Signature.Results()
	for i := 0; i < res.Len(); i++ {
		if n := res.At(i).Name(); n != "" && n != "_" {
			if _, clash := ren[n]; !clash {
				ren[n] = fmt.Sprintf("r%d", i)
			}
		}
	}
	ren["result"] = "r0"
	var walk func(n ast.Expr) string
	walk = func(n ast.Expr) string {
		switch x := n.(type) {
		case *ast.ParenExpr:
			return "(" + walk(x.X) + ")"
		case *ast.Ident:
			if r, ok := ren[x.Name]; ok {
				return r
			}
			return x.Name
		case *ast.BasicLit:
			return x.Value
		case *ast.SelectorExpr:
			return walk(x.X) + "." + x.Sel.Name
		case *ast.StarExpr:
			return "*" + walk(x.X)
		case *ast.IndexExpr:
			return walk(x.X) + "[" + walk(x.Index) + "]"
		case *ast.SliceExpr:
			lo, hi := "", ""
			if x.Low != nil {
				lo = walk(x.Low)
			}
			if x.High != nil {
				hi = walk(x.High)
			}
			return walk(x.X) + "[" + lo + ":" + hi + "]"
		case *ast.UnaryExpr:
			return x.Op.String() + walk(x.X)
		case *ast.BinaryExpr:
			return "(" + walk(x.X) + " " + x.Op.String() + " " + walk(x.Y) + ")"
		case *ast.CallExpr:
			if id, isId := x.Fun.(*ast.Ident); isId {
				switch id.Name {
				case "imp":
					return "(!(" + walk(x.Args[0]) + ") || (" + walk(x.Args[1]) + "))"
				case "old", "forall", "exists", "sha", "eqBytes", "unchanged", "isErr", "be16", "be32", "be64":
					ok = false
					return "true"
				}
			}
			var as []string
			for _, a := range x.Args {
				as = append(as, walk(a))
			}
			return walk(x.Fun) + "(" + strings.Join(as, ", ") + ")"
		}
		ok = false
		return "true"
	}
	out := walk(e)
	return out, ok
}
