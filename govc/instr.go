package main

import (
	"os"
	"fmt"
	"go/ast"
	"go/token"
	"go/types"
	"math"
	"strings"

	"golang.org/x/tools/go/ssa"
)

func float64bits(f float64) uint64 { return math.Float64bits(f) }
func float32bits(f float32) uint32 { return math.Float32bits(f) }

func (fc *fnCtx) set(x ssa.Value, v *val) {
	if v.ty == nil {
		v.ty = x.Type()
	}
	fc.vals[x] = v
}

// oblige emits a safety obligation for the current instruction.
func (fc *fnCtx) oblige(kind, what, cond string, pos token.Pos, show ...showTerm) {
	if fc.noObl() || fc.g.lite {
		return // typestate level: values are havoc, safety obligations are meaningless there
	}
	fc.g.oblige(obligation{name: fmt.Sprintf("safe:%s:%s:%s", fc.oblFn(), kind, what), kind: "safe", guard: fc.curR, cond: cond, show: show, pos: fc.g.w.posString(pos)})
}

func (fc *fnCtx) noObl() bool {
	for c := fc; c != nil; c = c.parent {
		if c.specMode {
			return true
		}
	}
	return false
}

func (fc *fnCtx) instr(in ssa.Instruction) {
	g := fc.g
	switch x := in.(type) {
	case *ssa.DebugRef:
		if id, ok := x.Expr.(*ast.Ident); ok {
			if obj := x.Object(); obj != nil && obj.Pkg() != nil && obj.Parent() == obj.Pkg().Scope() {
				return // a package-level variable or constant: specs resolve it through the package scope, never as a local
			}
			if fc.allocVars()[id.Name] {
				return // address-taken variable: its name always denotes the current content of its cell (bound at the Alloc)
			}
			if v, ok := fc.vals[x.X]; ok {
				lb := localBind{b: fc.curB, v: v, isAddr: x.IsAddr}
				if x.IsAddr {
					if pt, ok := x.X.Type().Underlying().(*types.Pointer); ok {
						lb.ty = pt.Elem()
					}
				}
				fc.locals[id.Name] = append(fc.locals[id.Name], lb)
			} else if c, ok := x.X.(*ssa.Const); ok {
				fc.locals[id.Name] = append(fc.locals[id.Name], localBind{b: fc.curB, v: fc.constVal(c)})
			}
		}
	case *ssa.Phi:
		if _, done := fc.vals[x]; done {
			return // loop header phi already havocked
		}
		b := x.Block()
		var acc *val
		for i := len(b.Preds) - 1; i >= 0; i-- {
			p := b.Preds[i]
			if _, ok := fc.reach[p]; !ok {
				continue
			}
			ev := fc.v(x.Edges[i])
			if acc == nil {
				acc = ev
				continue
			}
			acc = fc.ite(fc.edgeCond(p, b), ev, acc)
		}
		if acc == nil {
			acc = g.zeroVal(x.Type())
		}
		fc.set(x, fc.named(x.Name(), acc))
	case *ssa.BinOp:
		fc.set(x, fc.binop(x))
	case *ssa.UnOp:
		fc.set(x, fc.unop(x))
	case *ssa.Convert:
		fc.set(x, fc.convert(x.X, x.Type(), x.Pos()))
	case *ssa.ChangeType:
		v := *fc.v(x.X)
		v.ty = x.Type()
		fc.set(x, &v)
	case *ssa.ChangeInterface:
		v := *fc.v(x.X)
		v.ty = x.Type()
		fc.set(x, &v)
	case *ssa.SliceToArrayPointer:
		s := fc.v(x.X)
		n := x.Type().Underlying().(*types.Pointer).Elem().Underlying().(*types.Array).Len()
		fc.oblige("slice2array", x.Name(), fmt.Sprintf("(bvsle %s %s)", bv(64, uint64(n)), s.t[2]), x.Pos())
		fc.set(x, &val{k: kPtr, t: []string{s.t[0], s.t[1]}})
	case *ssa.MakeInterface:
		src := fc.v(x.X)
		tag := typeTag(x.X.Type())
		switch src.k {
		case kPtr:
			fc.set(x, &val{k: kIface, t: []string{fmt.Sprint(tag), src.t[0], src.t[1]}})
		default:
			// box: fresh object holding the value
			ref := fc.alloc("box", x.X.Type())
			fc.store(x.X.Type(), ref, z64, src)
			fc.set(x, &val{k: kIface, t: []string{fmt.Sprint(tag), ref, z64}})
		}
	case *ssa.Alloc:
		if fc.promotable(x) {
			et := x.Type().Underlying().(*types.Pointer).Elem()
			fc.cells[x] = g.zeroVal(et)
			fc.set(x, &val{k: kPtr, t: []string{"0", z64}})
			if fc.allocVars()[x.Comment] {
				fc.locals[x.Comment] = append(fc.locals[x.Comment], localBind{cell: x, b: fc.curB, isAddr: true, ty: et})
			}
			return
		}
		ref := fc.alloc(x.Comment, x.Type().Underlying().(*types.Pointer).Elem())
		pv := &val{k: kPtr, t: []string{ref, z64}}
		fc.set(x, pv)
		fc.classAssume(pv, x.Type(), fc.curR)
		if !x.Heap {
			fc.stackRefs = append(fc.stackRefs, ref) // never escapes: no callee can write it
		}
		if fc.allocVars()[x.Comment] {
			fc.locals[x.Comment] = append(fc.locals[x.Comment], localBind{b: fc.curB, v: pv, isAddr: true, ty: x.Type().Underlying().(*types.Pointer).Elem()})
		}
	case *ssa.MakeSlice:
		n := fc.v(x.Len)
		c := fc.v(x.Cap)
		ln, cp := zext(n, 64), zext(c, 64)
		// checked against 2*MAXLEN so that the global length assumption itself never fails an obligation
		fc.oblige("makeslice", fc.srcOr(x.Pos(), "call", x.Name()), fmt.Sprintf("(and (bvsle %s %s) (bvsle %s %s) (bvsle %s (bvshl MAXLEN #x0000000000000001)))", z64, ln, ln, cp, cp), x.Pos(), showTerm{"len", ln})
		ref := fc.alloc("mk", x.Type().Underlying().(*types.Slice).Elem())
		sv := &val{k: kSlice, constLen: constOf(ln), t: []string{ref, z64, ln, cp}}
		fc.classAssume(sv, x.Type(), fc.curR)
		fc.set(x, sv)
	case *ssa.MakeMap:
		fc.makeMap(x)
	case *ssa.MakeChan:
		ref := fc.alloc("mk", nil)
		fc.set(x, &val{k: kOpaque, t: []string{ref}})
	case *ssa.MakeClosure:
		ref := fc.alloc("clo", nil)
		cv := &val{k: kOpaque, t: []string{ref}}
		cl := &closureInfo{fn: x.Fn.(*ssa.Function), mk: x}
		for _, b := range x.Bindings {
			cl.bindings = append(cl.bindings, fc.v(b))
		}
		fc.g.closures[ref] = cl
		cv.closure = cl
		fc.set(x, cv)
	case *ssa.FieldAddr:
		p := fc.v(x.X)
		st := x.X.Type().Underlying().(*types.Pointer).Elem().Underlying().(*types.Struct)
		fc.oblige("nil", fc.srcOr(x.Pos(), "sel", "&"+x.X.Name()+"."+st.Field(x.Field).Name()), fmt.Sprintf("(not (= %s 0))", p.t[0]), x.Pos())
		fc.set(x, &val{k: kPtr, t: []string{p.t[0], addOff(p.t[1], fieldOff(st, x.Field))}})
	case *ssa.Field:
		sv := fc.v(x.X)
		if sv.k == kStruct && x.Field < len(sv.elems) {
			fc.set(x, sv.elems[x.Field])
		} else {
			g.unmodelled["Field:"+x.X.Type().String()]++
			fc.set(x, g.newVal("fld", x.Type()))
		}
	case *ssa.IndexAddr:
		idx := zext(fc.v(x.Index), 64)
		base := fc.v(x.X)
		var es int64
		switch bt := x.X.Type().Underlying().(type) {
		case *types.Slice:
			es = slots(bt.Elem())
			fc.instantiateAt(idx)
			fc.oblige("index", fc.srcOr(x.Pos(), "index", x.X.Name()+"["+x.Index.Name()+"]"), fmt.Sprintf("(and (bvsle %s %s) (bvslt %s %s))", z64, idx, idx, base.t[2]), x.Pos(), showTerm{"idx", idx}, showTerm{"len", base.t[2]})
		case *types.Pointer:
			arr := bt.Elem().Underlying().(*types.Array)
			es = slots(arr.Elem())
			fc.oblige("nil", fc.srcOr(x.Pos(), "index", x.X.Name()+"["+x.Index.Name()+"]"), fmt.Sprintf("(not (= %s 0))", base.t[0]), x.Pos())
			if c := constOf(idx); !(c >= 0 && int64(c) < arr.Len()) {
				fc.oblige("index", fc.srcOr(x.Pos(), "index", x.X.Name()+"["+x.Index.Name()+"]"), fmt.Sprintf("(and (bvsle %s %s) (bvslt %s %s))", z64, idx, idx, bv(64, uint64(arr.Len()))), x.Pos(), showTerm{"idx", idx})
			}
		}
		off := idx
		if es != 1 {
			off = fmt.Sprintf("(bvmul %s %s)", idx, bv(64, uint64(es)))
		}
		if idx == z64 {
			fc.set(x, &val{k: kPtr, t: []string{base.t[0], base.t[1]}})
		} else {
			fc.set(x, fc.named(x.Name(), &val{k: kPtr, t: []string{base.t[0], fmt.Sprintf("(bvadd %s %s)", base.t[1], off)}}))
		}
	case *ssa.Index:
		a := fc.v(x.X)
		idx := zext(fc.v(x.Index), 64)
		switch {
		case a.k == kArr:
			n := a.w / 8
			if c := constOf(idx); !(c >= 0 && c < n) {
				fc.oblige("index", fc.srcOr(x.Pos(), "index", x.X.Name()+"["+x.Index.Name()+"]"), fmt.Sprintf("(and (bvsle %s %s) (bvslt %s %s))", z64, idx, idx, bv(64, uint64(n))), x.Pos(), showTerm{"idx", idx})
			}
			fc.set(x, &val{k: kInt, w: 8, t: []string{arrByte(a, idx)}})
		case a.k == kSlice: // string
			fc.oblige("index", fc.srcOr(x.Pos(), "index", x.X.Name()+"["+x.Index.Name()+"]"), fmt.Sprintf("(and (bvsle %s %s) (bvslt %s %s))", z64, idx, idx, a.t[2]), x.Pos(), showTerm{"idx", idx}, showTerm{"len", a.t[2]})
			fc.set(x, fc.named(x.Name(), fc.load(types.Typ[types.Uint8], a.t[0], fmt.Sprintf("(bvadd %s %s)", a.t[1], idx))))
		default:
			g.unmodelled["Index:"+x.X.Type().String()]++
			fc.set(x, g.newVal("idx", x.Type()))
		}
	case *ssa.Slice:
		fc.set(x, fc.slice(x))
	case *ssa.Store:
		if g.lite {
			fc.event("store "+fc.addrText(x.Addr), nil, x.Pos())
		}
		if a, ok := x.Addr.(*ssa.Alloc); ok && fc.promotable(a) {
			fc.cells[a] = fc.named(fc.pfx+"cell_"+a.Comment, fc.v(x.Val))
			return
		}
		p := fc.v(x.Addr)
		if !derivedAddr(x.Addr) {
			fc.oblige("nil", "*"+fc.addrText(x.Addr)+"=", fmt.Sprintf("(not (= %s 0))", p.t[0]), x.Pos())
		}
		fc.checkGuarded(x.Addr, true, x.Pos())
		fc.store(x.Val.Type(), p.t[0], p.t[1], fc.v(x.Val))
	case *ssa.Extract:
		tv := fc.v(x.Tuple)
		if x.Index < len(tv.elems) {
			fc.set(x, tv.elems[x.Index])
		} else {
			fc.set(x, g.newVal("ext", x.Type()))
		}
	case *ssa.Call:
		fc.call(x)
	case *ssa.Defer:
		d := deferred{guard: fc.curR, call: x}
		for _, a := range x.Call.Args {
			d.args = append(d.args, fc.v(a))
		}
		if !x.Call.IsInvoke() {
			if _, ok := x.Call.Value.(*ssa.Function); !ok {
				if _, ok := x.Call.Value.(*ssa.Builtin); !ok {
					d.fnv = fc.v(x.Call.Value)
				}
			}
		} else {
			d.fnv = fc.v(x.Call.Value)
		}
		fc.defers = append(fc.defers, d)
	case *ssa.RunDefers:
		fc.runDefers()
	case *ssa.Go:
		g.unmodelled["go"]++
	case *ssa.Send:
		g.unmodelled["send"]++
	case *ssa.Select:
		g.unmodelled["select"]++
		fc.set(x, g.newVal("sel", x.Type()))
	case *ssa.MapUpdate:
		fc.mapUpdate(x)
	case *ssa.Lookup:
		if isString(x.X.Type()) {
			a := fc.v(x.X)
			idx := zext(fc.v(x.Index), 64)
			fc.oblige("index", fc.srcOr(x.Pos(), "index", x.X.Name()+"["+x.Index.Name()+"]"), fmt.Sprintf("(and (bvsle %s %s) (bvslt %s %s))", z64, idx, idx, a.t[2]), x.Pos())
			fc.set(x, fc.named(x.Name(), fc.load(types.Typ[types.Uint8], a.t[0], fmt.Sprintf("(bvadd %s %s)", a.t[1], idx))))
			return
		}
		if fc.mapLookup(x) {
			return
		}
		v := g.newVal("lookup", x.Type())
		fc.wfRefAssume(v, fc.curAC, fc.curR)
		fc.set(x, v)
	case *ssa.Range:
		fc.set(x, &val{k: kOpaque, t: []string{"0"}})
	case *ssa.Next:
		v := g.newVal("next", x.Type())
		fc.wfRefAssume(v, fc.curAC, fc.curR)
		fc.mapNext(x, v)
		fc.set(x, v)
	case *ssa.TypeAssert:
		src := fc.v(x.X)
		var okc string
		var res *val
		if types.IsInterface(x.AssertedType) {
			// interface-to-interface: succeeds iff non-nil and the dynamic type implements it (not modelled: unknown)
			okv := g.declare(g.freshName("taok"), "Bool")
			g.assume(fmt.Sprintf("(=> %s (not (= %s 0)))", okv, src.t[0]))
			okc = okv
			res = &val{k: kIface, t: src.t}
		} else {
			tag := typeTag(x.AssertedType)
			okc = fmt.Sprintf("(= %s %d)", src.t[0], tag)
			if _, isPtr := x.AssertedType.Underlying().(*types.Pointer); isPtr {
				res = &val{k: kPtr, t: []string{src.t[1], src.t[2]}}
			} else {
				res = fc.load(x.AssertedType, src.t[1], src.t[2])
			}
		}
		if x.CommaOk {
			zero := g.zeroVal(x.AssertedType)
			fc.set(x, &val{k: kTuple, elems: []*val{fc.ite(okc, res, zero), {k: kBool, t: []string{okc}}}})
		} else {
			fc.oblige("typeassert", fc.srcOr(x.Pos(), "typeassert", "assert-to-"+x.AssertedType.String()), okc, x.Pos())
			fc.set(x, res)
		}
	case *ssa.Jump:
	case *ssa.If:
		// typestate: branch events `then(<cond text>)` / `else(<cond text>)` named by an order rule of the function under
		// contract: the flag is set exactly on the paths where the comparison written in the source evaluated that way
		if g.lite && len(fc.topOrders()) > 0 && fc.lexicallyInTop() {
			txt := ""
			switch c := x.Cond.(type) {
			case *ssa.BinOp:
				txt = g.w.srcAt(c.Pos(), "binop")
			case *ssa.UnOp:
				if b, ok := c.X.(*ssa.BinOp); ok && c.Op == token.NOT {
					txt = "!(" + g.w.srcAt(b.Pos(), "binop") + ")"
				}
			}
			if os.Getenv("GOVC_EVENTS") != "" {
				fmt.Fprintf(os.Stderr, "branch %q (%T)\n", txt, x.Cond)
			}
			if txt != "" {
				cv := fc.v(x.Cond)
				if fc.topHasOrderEvent("then(" + txt + ")") {
					fc.setFlag("then("+txt+")", cv.t[0])
				}
				if fc.topHasOrderEvent("else(" + txt + ")") {
					fc.setFlag("else("+txt+")", "(not "+cv.t[0]+")")
				}
			}
		}
	case *ssa.Return:
		var vs []*val
		for _, r := range x.Results {
			vs = append(vs, fc.v(r))
		}
		cs := map[*ssa.Alloc]*val{}
		for a, v := range fc.cells {
			cs[a] = v
		}
		fc.rets = append(fc.rets, retSite{cs, fc.g.w.srcAt(x.Pos(), "return"), fc.curR, vs, fc.curH.clone(), fc.curAC, x.Block()})
		if g.lite && fc.parent == nil {
			// typestate: `order L: A before return nil`: a return with a nil error needs a preceding successful A
			for _, o := range fc.topOrders() {
				if o.after == "return" {
					// `order L: A before return`: every return of the function needs a preceding successful A
					g.oblige(obligation{name: fmt.Sprintf("order:%s:%s", fnKeyQ(fc.fn), o.label), kind: "order", guard: fc.curR,
						cond: o.happened(fc.curH["GL"]), pos: g.w.posString(x.Pos())})
					continue
				}
				if o.after == "return ok" && len(x.Results) > 0 {
					// `order L: A before return ok`: a return statement whose error result is the literal nil
					if g.w.returnsLiteralNil(x.Pos()) {
						g.oblige(obligation{name: fmt.Sprintf("order:%s:%s", fnKeyQ(fc.fn), o.label), kind: "order", guard: fc.curR,
							cond: o.happened(fc.curH["GL"]), pos: g.w.posString(x.Pos())})
					}
					continue
				}
				if o.after != "return nil" || len(vs) == 0 {
					continue
				}
				last := vs[len(vs)-1]
				if last.k != kIface || last.ty == nil || !isErrorType(last.ty) {
					continue
				}
				g.oblige(obligation{name: fmt.Sprintf("order:%s:%s", fnKeyQ(fc.fn), o.label), kind: "order",
					guard: fmt.Sprintf("(and %s (= %s 0))", fc.curR, last.t[0]),
					cond:  o.happened(fc.curH["GL"]), pos: g.w.posString(x.Pos())})
			}
		}
	case *ssa.Panic:
		c := g.topContract(fc.fn)
		if c != nil && c.panicsWhen != "" && fc.parent == nil {
			f, err := fc.specCtxAt(nil, fc.curH).boolExpr(c.panicsWhen)
			if err != nil {
				fatalContract(fc.fn, "panics when", c.panicsWhen, err)
			}
			fc.oblige("panic", "explicit", f, x.Pos())
		} else {
			fc.oblige("panic", "explicit", "false", x.Pos())
		}
	default:
		g.unmodelled[fmt.Sprintf("%T", in)]++
		if v, ok := in.(ssa.Value); ok {
			fc.set(v, g.newVal("hv", v.Type()))
		}
	}
}

func (fc *fnCtx) srcOr(pos token.Pos, class, fallback string) string {
	if s := fc.g.w.srcAt(pos, class); s != "" {
		return s
	}
	return fallback
}

func (fc *fnCtx) addrText(a ssa.Value) string {
	switch x := a.(type) {
	case *ssa.FieldAddr:
		st := x.X.Type().Underlying().(*types.Pointer).Elem().Underlying().(*types.Struct)
		return fc.addrText(x.X) + "." + st.Field(x.Field).Name()
	case *ssa.IndexAddr:
		return fc.addrText(x.X) + "[]"
	case *ssa.Parameter:
		return x.Name()
	case *ssa.Alloc:
		if x.Comment == "complit" || x.Comment == "new" {
			if n := fc.debugName(a); n != "" && n != "#ambiguous" {
				return n // `newState := &T{...}`: the variable the literal is (only) assigned to
			}
		}
		if x.Comment != "" {
			return x.Comment
		}
	case *ssa.Global:
		return x.Name()
	case *ssa.FreeVar:
		return x.Name()
	case *ssa.UnOp:
		if x.Op == token.MUL {
			return fc.addrText(x.X)
		}
	}
	if n := fc.debugName(a); n != "" {
		return n
	}
	return "p"
}

// debugName: the source variable an SSA value is the (only) definition of, from the DebugRef instructions.
func (fc *fnCtx) debugName(a ssa.Value) string {
	if fc.dbgNames == nil {
		fc.dbgNames = map[ssa.Value]string{}
		for _, b := range fc.fn.Blocks {
			for _, in := range b.Instrs {
				if d, ok := in.(*ssa.DebugRef); ok && !d.IsAddr {
					if id, ok := d.Expr.(*ast.Ident); ok {
						if old, seen := fc.dbgNames[d.X]; seen && old != id.Name {
							fc.dbgNames[d.X] = "#ambiguous"
						} else {
							fc.dbgNames[d.X] = id.Name
						}
					}
				}
			}
		}
	}
	if n := fc.dbgNames[a]; n != "" && n != "#ambiguous" {
		return n
	}
	return ""
}

func (fc *fnCtx) named(base string, v *val) *val {
	g := fc.g
	out := &val{k: v.k, w: v.w, constLen: v.constLen, signed: v.signed, ty: v.ty, closure: v.closure}
	switch v.k {
	case kInt, kArr, kFloat:
		if isSimple(v.t[0]) {
			out.t = v.t
		} else {
			out.t = []string{g.bind(fc.pfx+base, fmt.Sprintf("(_ BitVec %d)", maxi(v.w, 1)), v.t[0])}
		}
	case kTuple, kStruct:
		for i, e := range v.elems {
			out.elems = append(out.elems, fc.named(fmt.Sprintf("%s_%d", base, i), e))
		}
	default:
		for i, s := range sortsOf(v.k) {
			if isSimple(v.t[i]) {
				out.t = append(out.t, v.t[i])
			} else {
				out.t = append(out.t, g.bind(fc.pfx+base, s, v.t[i]))
			}
		}
	}
	return out
}

func isSimple(t string) bool {
	return !strings.ContainsAny(t, " (") || (strings.HasPrefix(t, "(- ") && strings.Count(t, "(") == 1) || strings.HasPrefix(t, "(_ bv")
}

func (fc *fnCtx) ite(c string, a, b *val) *val {
	if a.k != b.k {
		if a.k == kOpaque && len(a.elems) == 0 {
			a = fc.coerceNil(a, b)
		} else if b.k == kOpaque {
			b = fc.coerceNil(b, a)
		}
	}
	out := &val{k: a.k, w: a.w, constLen: -1, signed: a.signed, ty: a.ty}
	if a.k == kSlice && a.constLen == b.constLen {
		out.constLen = a.constLen
	}
	if a.k == kTuple || a.k == kStruct {
		for i := range a.elems {
			out.elems = append(out.elems, fc.ite(c, a.elems[i], b.elems[i]))
		}
		return out
	}
	for i := range a.t {
		if i >= len(b.t) {
			out.t = append(out.t, a.t[i])
		} else if a.t[i] == b.t[i] {
			out.t = append(out.t, a.t[i])
		} else {
			out.t = append(out.t, fmt.Sprintf("(ite %s %s %s)", c, a.t[i], b.t[i]))
		}
	}
	return out
}

func (fc *fnCtx) coerceNil(n, like *val) *val {
	if like.ty != nil {
		return fc.g.zeroVal(like.ty)
	}
	return like
}

func (fc *fnCtx) binop(x *ssa.BinOp) *val {
	a, b := fc.v(x.X), fc.v(x.Y)
	res := func(t string) *val {
		return fc.named(x.Name(), &val{k: kInt, w: a.w, signed: a.signed, t: []string{t}})
	}
	boolv := func(t string) *val { return &val{k: kBool, t: []string{t}} }
	switch a.k {
	case kInt:
		if b.k != kInt {
			break
		}
		A := a.t[0]
		B := b.t[0]
		signed := a.signed
		if x.Op == token.SHL || x.Op == token.SHR {
			bb := b
			if bb.signed {
				// negative shift count panics
				fc.oblige("shift", fc.srcOr(x.Pos(), "binop", x.Name()), fmt.Sprintf("(bvsle %s %s)", bv(bb.w, 0), bb.t[0]), x.Pos())
			}
			ub := *bb
			ub.signed = false
			return fc.named(x.Name(), shiftVal(x.Op, a, &ub))
		}
		switch x.Op {
		case token.ADD:
			return res(fmt.Sprintf("(bvadd %s %s)", A, B))
		case token.SUB:
			return res(fmt.Sprintf("(bvsub %s %s)", A, B))
		case token.MUL:
			return res(fmt.Sprintf("(bvmul %s %s)", A, B))
		case token.QUO, token.REM:
			if _, isConst := x.Y.(*ssa.Const); !isConst || B == bv(a.w, 0) {
				fc.oblige("div0", fc.srcOr(x.Pos(), "binop", x.Name()), fmt.Sprintf("(not (= %s %s))", B, bv(a.w, 0)), x.Pos(), showTerm{"divisor", B})
			}
			if _, isConst := x.Y.(*ssa.Const); !isConst && fc.g.absDivMod {
				// division/modulo by a non-constant: uninterpreted with instance axioms that are theorems of the
				// bit-vector operators (DESIGN 2.4)
				return fc.named(x.Name(), &val{k: kInt, w: a.w, signed: signed, t: []string{fc.g.divmodAbs(x.Op == token.QUO, signed, a.w, A, B)}})
			}
			op := map[bool]map[token.Token]string{true: {token.QUO: "bvsdiv", token.REM: "bvsrem"}, false: {token.QUO: "bvudiv", token.REM: "bvurem"}}[signed][x.Op]
			return res(fmt.Sprintf("(%s %s %s)", op, A, B))
		case token.AND:
			return res(fmt.Sprintf("(bvand %s %s)", A, B))
		case token.OR:
			return res(fmt.Sprintf("(bvor %s %s)", A, B))
		case token.XOR:
			return res(fmt.Sprintf("(bvxor %s %s)", A, B))
		case token.AND_NOT:
			return res(fmt.Sprintf("(bvand %s (bvnot %s))", A, B))
		case token.EQL:
			return boolv(fmt.Sprintf("(= %s %s)", A, B))
		case token.NEQ:
			return boolv(fmt.Sprintf("(not (= %s %s))", A, B))
		case token.LSS, token.LEQ, token.GTR, token.GEQ:
			op := map[token.Token]string{token.LSS: "lt", token.LEQ: "le", token.GTR: "gt", token.GEQ: "ge"}[x.Op]
			p := "bvu"
			if signed {
				p = "bvs"
			}
			return boolv(fmt.Sprintf("(%s%s %s %s)", p, op, A, B))
		}
	case kFloat:
		if b.k != kFloat {
			break
		}
		fa, fb := fpOf(a), fpOf(b)
		switch x.Op {
		case token.EQL:
			return boolv(fmt.Sprintf("(fp.eq %s %s)", fa, fb))
		case token.NEQ:
			return boolv(fmt.Sprintf("(not (fp.eq %s %s))", fa, fb))
		case token.LSS:
			return boolv(fmt.Sprintf("(fp.lt %s %s)", fa, fb))
		case token.LEQ:
			return boolv(fmt.Sprintf("(fp.leq %s %s)", fa, fb))
		case token.GTR:
			return boolv(fmt.Sprintf("(fp.gt %s %s)", fa, fb))
		case token.GEQ:
			return boolv(fmt.Sprintf("(fp.geq %s %s)", fa, fb))
		}
	case kBool:
		switch x.Op {
		case token.EQL:
			return boolv(fmt.Sprintf("(= %s %s)", a.t[0], b.t[0]))
		case token.NEQ:
			return boolv(fmt.Sprintf("(not (= %s %s))", a.t[0], b.t[0]))
		case token.AND:
			return boolv(fmt.Sprintf("(and %s %s)", a.t[0], b.t[0]))
		case token.OR:
			return boolv(fmt.Sprintf("(or %s %s)", a.t[0], b.t[0]))
		}
	case kArr, kStruct:
		if x.Op == token.EQL || x.Op == token.NEQ {
			eq, err := eqTerm(a, b)
			if err == nil {
				if x.Op == token.NEQ {
					eq = "(not " + eq + ")"
				}
				return boolv(eq)
			}
		}
	case kPtr, kOpaque:
		if len(b.t) == 0 {
			break
		}
		eq := fmt.Sprintf("(= %s %s)", a.t[0], b.t[0])
		if a.k == kPtr && b.k == kPtr && !isNilConst(x.X) && !isNilConst(x.Y) {
			eq = fmt.Sprintf("(and (= %s %s) (= %s %s))", a.t[0], b.t[0], a.t[1], b.t[1])
		}
		if x.Op == token.EQL {
			return boolv(eq)
		}
		if x.Op == token.NEQ {
			return boolv("(not " + eq + ")")
		}
	case kIface:
		var eq string
		switch {
		case isNilConst(x.Y):
			eq = fmt.Sprintf("(= %s 0)", a.t[0])
		case isNilConst(x.X):
			eq = fmt.Sprintf("(= %s 0)", b.t[0])
		case b.k == kIface:
			eq = fmt.Sprintf("(and (= %s %s) (= %s %s) (= %s %s))", a.t[0], b.t[0], a.t[1], b.t[1], a.t[2], b.t[2])
		}
		if eq != "" {
			if x.Op == token.EQL {
				return boolv(eq)
			}
			if x.Op == token.NEQ {
				return boolv("(not " + eq + ")")
			}
		}
	case kSlice:
		if isString(x.X.Type()) {
			switch x.Op {
			case token.EQL:
				return boolv(fc.strEq(a, b))
			case token.NEQ:
				return boolv("(not " + fc.strEq(a, b) + ")")
			case token.ADD:
				// concatenation: fresh string of the summed length (content not modelled)
				ref := fc.alloc("cat", types.Typ[types.Uint8])
				ln := fc.g.bind("catlen", "(_ BitVec 64)", fmt.Sprintf("(bvadd %s %s)", a.t[2], b.t[2]))
				fc.g.assume(fmt.Sprintf("(bvsle %s MAXLEN)", ln))
				return &val{k: kSlice, constLen: -1, t: []string{ref, z64, ln, ln}}
			}
			break
		}
		eq := fmt.Sprintf("(= %s 0)", a.t[0]) // only nil comparisons are legal
		if isNilConst(x.X) {
			eq = fmt.Sprintf("(= %s 0)", b.t[0])
		}
		if x.Op == token.EQL {
			return boolv(eq)
		}
		if x.Op == token.NEQ {
			return boolv("(not " + eq + ")")
		}
	}
	fc.g.unmodelled["binop:"+x.Op.String()+":"+x.X.Type().String()]++
	return fc.g.newVal("bo", x.Type())
}

// strEq: equal headers imply equality; otherwise equal lengths and equal bytes (bounded explicit comparison when a side is constant).
func (fc *fnCtx) strEq(a, b *val) string {
	if a.constLen < 0 && b.constLen >= 0 {
		a, b = b, a
	}
	if a.constLen >= 0 && a.constLen <= 64 && !fc.g.lite {
		parts := []string{fmt.Sprintf("(= %s %s)", b.t[2], bv(64, uint64(a.constLen)))}
		for i := 0; i < a.constLen; i++ {
			parts = append(parts, fmt.Sprintf("(= %s %s)", sel(fc.curH["HB"], a.t[0], addOff(a.t[1], int64(i))), sel(fc.curH["HB"], b.t[0], addOff(b.t[1], int64(i)))))
		}
		return and(parts...)
	}
	fc.g.declFun("str_eq", "(Int (_ BitVec 64) (_ BitVec 64) Int (_ BitVec 64) (_ BitVec 64)) Bool")
	return fmt.Sprintf("(or (and (= %s %s) (= %s %s) (= %s %s)) (and (= %s %s) (str_eq %s %s %s %s %s %s)))", a.t[0], b.t[0], a.t[1], b.t[1], a.t[2], b.t[2],
		a.t[2], b.t[2], a.t[0], a.t[1], a.t[2], b.t[0], b.t[1], b.t[2])
}

func isNilConst(v ssa.Value) bool {
	c, ok := v.(*ssa.Const)
	return ok && c.Value == nil
}

func (fc *fnCtx) unop(x *ssa.UnOp) *val {
	a := fc.v(x.X)
	switch x.Op {
	case token.MUL: // load
		if al, ok := x.X.(*ssa.Alloc); ok && fc.promotable(al) {
			if v, ok := fc.cells[al]; ok {
				c := *v
				c.ty = x.Type()
				return &c
			}
			return fc.g.zeroVal(x.Type())
		}
		if !derivedAddr(x.X) {
			fc.oblige("nil", "*"+fc.addrText(x.X), fmt.Sprintf("(not (= %s 0))", a.t[0]), x.Pos())
		}
		fc.checkGuarded(x.X, false, x.Pos())
		v := fc.load(x.Type(), a.t[0], a.t[1])
		if gl, ok := x.X.(*ssa.Global); ok && isErrorType(gl.Type().(*types.Pointer).Elem()) {
			// sentinel error variables are initialised non-nil and never reassigned (assumption, listed in evidence)
			fc.g.assume(fmt.Sprintf("(not (= %s 0))", v.t[0]))
			fc.g.trusted["package-level variables of type error (sentinels) are non-nil and never reassigned"] = true
		}
		return fc.named(x.Name(), v)
	case token.NOT:
		return &val{k: kBool, t: []string{fmt.Sprintf("(not %s)", a.t[0])}}
	case token.SUB:
		if a.k == kInt {
			return &val{k: kInt, w: a.w, signed: a.signed, t: []string{fmt.Sprintf("(bvneg %s)", a.t[0])}}
		}
		if a.k == kFloat {
			return &val{k: kFloat, w: a.w, t: []string{fmt.Sprintf("(bvxor %s %s)", a.t[0], bv(a.w, 1<<uint(a.w-1)))}}
		}
	case token.XOR:
		return &val{k: kInt, w: a.w, signed: a.signed, t: []string{fmt.Sprintf("(bvnot %s)", a.t[0])}}
	case token.ARROW:
		fc.g.unmodelled["chan-recv"]++
		v := fc.g.newVal("recv", x.Type())
		fc.wfRefAssume(v, fc.curAC, fc.curR)
		return v
	}
	fc.g.unmodelled["unop:"+x.Op.String()]++
	return fc.g.newVal("uo", x.Type())
}

func (fc *fnCtx) convert(src ssa.Value, to types.Type, pos token.Pos) *val {
	a := fc.v(src)
	if w, s, ok := intW(to); ok && a.k == kInt {
		return &val{k: kInt, w: w, signed: s, t: []string{zext(a, w)}}
	}
	if a.k == kSlice { // string <-> []byte: fresh copy with the same content
		if _, ok := to.Underlying().(*types.Slice); ok || isString(to) {
			if sl, ok := to.Underlying().(*types.Slice); ok {
				if w, _, ok := intW(sl.Elem()); !ok || w != 8 {
					break2 := true
					_ = break2
					fc.g.unmodelled["convert:"+src.Type().String()+"->"+to.String()]++
					return fc.g.newVal("cv", to)
				}
			}
			ref := fc.alloc("conv", types.Typ[types.Uint8])
			if !fc.g.lite {
				srow := fc.g.bind("srow", rowSort("(_ BitVec 8)"), fmt.Sprintf("(select %s %s)", fc.curH["HB"], a.t[0]))
				nrow := fmt.Sprintf("(lambda ((o (_ BitVec 64))) (select %s (bvadd %s o)))", srow, a.t[1])
				fc.curH["HB"] = fmt.Sprintf("(store %s %s %s)", fc.curH["HB"], ref, nrow)
				fc.nameHeaps()
			}
			return &val{k: kSlice, constLen: a.constLen, t: []string{ref, z64, a.t[2], a.t[2]}}
		}
	}
	if a.k == kPtr {
		if b, ok := to.Underlying().(*types.Basic); ok && b.Kind() == types.UnsafePointer {
			return a
		}
		if _, ok := to.Underlying().(*types.Pointer); ok {
			return a
		}
	}
	if fw, ok := isFloat(to); ok && a.k == kFloat && fw == a.w {
		return a
	}
	fc.g.unmodelled["convert:"+src.Type().String()+"->"+to.String()]++
	v := fc.g.newVal("cv", to)
	fc.wfRefAssume(v, fc.curAC, fc.curR)
	return v
}

func (fc *fnCtx) slice(x *ssa.Slice) *val {
	base := fc.v(x.X)
	var ref, off, ln, cp string
	var es int64 = 1
	constLen := -1
	isStr := false
	switch bt := x.X.Type().Underlying().(type) {
	case *types.Pointer: // *[N]T
		arr := bt.Elem().Underlying().(*types.Array)
		es = slots(arr.Elem())
		fc.oblige("nil", fc.srcOr(x.Pos(), "slice", x.X.Name()+"[:]"), fmt.Sprintf("(not (= %s 0))", base.t[0]), x.Pos())
		ref, off, ln, cp = base.t[0], base.t[1], bv(64, uint64(arr.Len())), bv(64, uint64(arr.Len()))
		constLen = int(arr.Len())
	case *types.Slice:
		es = slots(bt.Elem())
		ref, off, ln, cp = base.t[0], base.t[1], base.t[2], base.t[3]
		constLen = base.constLen
	case *types.Basic: // string
		ref, off, ln, cp = base.t[0], base.t[1], base.t[2], base.t[2]
		constLen = base.constLen
		isStr = true
	}
	lo, hi, mx := z64, ln, cp
	loC, hiC := 0, constLen
	if x.Low != nil {
		lo = zext(fc.v(x.Low), 64)
		loC = constOf(lo)
	}
	if x.High != nil {
		hi = zext(fc.v(x.High), 64)
		hiC = constOf(hi)
	}
	if x.Max != nil {
		mx = zext(fc.v(x.Max), 64)
	}
	if x.Low != nil && lo != z64 && !isLiteral(lo) {
		top := fc.topCtx()
		top.sliceLos = append(top.sliceLos, lo)
	}
	trivial := x.Low == nil && x.High == nil && x.Max == nil
	if !trivial {
		fc.oblige("slice", fc.srcOr(x.Pos(), "slice", x.X.Name()+"[:]"), fmt.Sprintf("(and (bvsle %s %s) (bvsle %s %s) (bvsle %s %s) (bvsle %s %s))", z64, lo, lo, hi, hi, mx, mx, cp), x.Pos(),
			showTerm{"lo", lo}, showTerm{"hi", hi}, showTerm{"cap", cp})
	}
	newOff := fmt.Sprintf("(bvadd %s %s)", off, lo)
	if es != 1 {
		newOff = fmt.Sprintf("(bvadd %s (bvmul %s %s))", off, lo, bv(64, uint64(es)))
	}
	if lo == z64 {
		newOff = off
	}
	newCap := fmt.Sprintf("(bvsub %s %s)", mx, lo)
	newLen := fmt.Sprintf("(bvsub %s %s)", hi, lo)
	if lo == z64 {
		newCap, newLen = mx, hi
	}
	if isStr {
		newCap = newLen
	}
	out := &val{k: kSlice, constLen: -1, t: []string{ref, newOff, newLen, newCap}}
	if loC >= 0 && hiC >= 0 && hiC >= loC {
		out.constLen = hiC - loC
		out.t[2] = bv(64, uint64(out.constLen))
		if isStr {
			out.t[3] = out.t[2]
		}
	}
	o := fc.named(x.Name(), out)
	o.constLen = out.constLen
	return o
}

// ---------------------------------------------------------------------------------------
// memory

func (fc *fnCtx) load(t types.Type, ref, off string) *val {
	// store-to-load forwarding: the same cell was written last and the heaps involved have not changed since
	if v, ok := fc.fwd[fc.fwdKey(t, ref, off)]; ok && !fc.g.lite {
		c := *v
		c.ty = t
		return &c
	}
	return fc.loadH(fc.curH, t, ref, off, fc.curR)
}

func (fc *fnCtx) fwdKey(t types.Type, ref, off string) string {
	var sb strings.Builder
	for _, k := range kindsOf(t) {
		sb.WriteString(fc.curH[k])
		sb.WriteByte('|')
	}
	sb.WriteString(ref)
	sb.WriteByte('|')
	sb.WriteString(off)
	sb.WriteByte('|')
	sb.WriteString(t.String())
	return sb.String()
}

func (fc *fnCtx) loadH(h heap, t types.Type, ref, off string, guard string) *val {
	g := fc.g
	if g.lite {
		v := g.newVal("ld", t)
		return v
	}
	if w, s, ok := intW(t); ok {
		if w == 8 {
			return &val{k: kInt, w: 8, signed: s, ty: t, t: []string{sel(h["HB"], ref, off)}}
		}
		x := sel(h["HW"], ref, off)
		if w < 64 {
			x = fmt.Sprintf("((_ extract %d 0) %s)", w-1, x)
		}
		return &val{k: kInt, w: w, signed: s, ty: t, t: []string{x}}
	}
	if w, ok := isFloat(t); ok {
		x := sel(h["HW"], ref, off)
		if w < 64 {
			x = fmt.Sprintf("((_ extract %d 0) %s)", w-1, x)
		}
		return &val{k: kFloat, w: w, ty: t, t: []string{x}}
	}
	gimp := func(f string) {
		if guard == "#skip" {
			return
		}
		if guard != "" && guard != "true" {
			g.assume(fmt.Sprintf("(=> %s %s)", guard, f))
		} else {
			g.assume(f)
		}
	}
	switch u := t.Underlying().(type) {
	case *types.Basic:
		if u.Info()&types.IsBoolean != 0 {
			return &val{k: kBool, ty: t, t: []string{fmt.Sprintf("(not (= %s %s))", sel(h["HW"], ref, off), z64)}}
		}
		if u.Info()&types.IsString != 0 {
			v := &val{k: kSlice, constLen: -1, ty: t, t: []string{sel(h["HSr"], ref, off), sel(h["HSo"], ref, off), sel(h["HSl"], ref, off), sel(h["HSl"], ref, off)}}
			gimp(sliceWF(v))
			g.wfInstances("HSr", ref, off, guard)
			fc.classAssume(v, t, guard)
			return v
		}
		if u.Kind() == types.UnsafePointer {
			return &val{k: kPtr, ty: t, t: []string{sel(h["HPr"], ref, off), sel(h["HPo"], ref, off)}}
		}
	case *types.Pointer:
		pv := &val{k: kPtr, ty: t, t: []string{sel(h["HPr"], ref, off), sel(h["HPo"], ref, off)}}
		g.wfInstances("HPr", ref, off, guard)
		fc.classAssume(pv, t, guard)
		gimp(fmt.Sprintf("(and (> %s (- %d)) (bvsle %s %s) (bvslt %s MAXLEN))", pv.t[0], strRefBase, z64, pv.t[1], pv.t[1]))
		return pv
	case *types.Slice:
		v := &val{k: kSlice, constLen: -1, ty: t, t: []string{sel(h["HSr"], ref, off), sel(h["HSo"], ref, off), sel(h["HSl"], ref, off), sel(h["HSc"], ref, off)}}
		gimp(sliceWF(v))
		g.wfInstances("HSr", ref, off, guard)
		fc.classAssume(v, t, guard)
		return v
	case *types.Interface:
		g.wfInstances("HIr", ref, off, guard)
		return &val{k: kIface, ty: t, t: []string{sel(h["HIt"], ref, off), sel(h["HIr"], ref, off), sel(h["HIo"], ref, off)}}
	case *types.Array:
		if n, ok := isByteArray(t); ok {
			if n == 0 {
				return &val{k: kArr, w: 0, ty: t, t: []string{bvZero(1)}}
			}
			row := g.bind("row", rowSort("(_ BitVec 8)"), fmt.Sprintf("(select %s %s)", h["HB"], ref))
			parts := make([]string, n)
			for i := 0; i < n; i++ {
				parts[i] = fmt.Sprintf("(select %s %s)", row, addOff(off, int64(i)))
			}
			x := parts[0]
			if n > 1 {
				x = "(concat " + strings.Join(parts, " ") + ")"
			}
			return &val{k: kArr, w: 8 * n, ty: t, t: []string{x}, arrRow: row, arrOff: off}
		}
	case *types.Struct:
		v := &val{k: kStruct, ty: t}
		for i := 0; i < u.NumFields(); i++ {
			v.elems = append(v.elems, fc.loadH(h, u.Field(i).Type(), ref, addOff(off, fieldOff(u, i)), guard))
		}
		return v
	case *types.Map, *types.Signature, *types.Chan:
		g.wfInstances("HPr", ref, off, guard)
		ov := &val{k: kOpaque, ty: t, t: []string{sel(h["HPr"], ref, off)}}
		fc.classAssume(ov, t, guard)
		return ov
	}
	g.unmodelled["load:"+t.String()]++
	return g.newVal("ld", t)
}

func (fc *fnCtx) store(t types.Type, ref, off string, v *val) {
	if fc.g.lite {
		return
	}
	h := fc.curH
	upd := func(kind, term string) { h[kind] = sto(h[kind], ref, off, term) }
	switch v.k {
	case kInt, kFloat:
		if v.k == kInt && v.w == 8 {
			upd("HB", v.t[0])
		} else {
			x := v.t[0]
			if v.w < 64 {
				x = fmt.Sprintf("((_ zero_extend %d) %s)", 64-v.w, x)
			}
			upd("HW", x)
		}
	case kBool:
		upd("HW", fmt.Sprintf("(ite %s #x0000000000000001 %s)", v.t[0], z64))
	case kPtr:
		upd("HPr", v.t[0])
		upd("HPo", v.t[1])
	case kOpaque:
		upd("HPr", v.t[0])
	case kSlice:
		upd("HSr", v.t[0])
		upd("HSo", v.t[1])
		upd("HSl", v.t[2])
		upd("HSc", v.t[3])
	case kIface:
		upd("HIt", v.t[0])
		upd("HIr", v.t[1])
		upd("HIo", v.t[2])
	case kArr:
		n := v.w / 8
		if n == 0 {
			return
		}
		nm := v.t[0]
		if !isSimple(nm) {
			nm = fc.g.bind("arrv", fmt.Sprintf("(_ BitVec %d)", v.w), v.t[0])
		}
		row := fmt.Sprintf("(select %s %s)", h["HB"], ref)
		for i := 0; i < n; i++ {
			hi := v.w - 1 - 8*i
			row = fmt.Sprintf("(store %s %s ((_ extract %d %d) %s))", row, addOff(off, int64(i)), hi, hi-7, nm)
		}
		h["HB"] = fmt.Sprintf("(store %s %s %s)", h["HB"], ref, row)
	case kStruct:
		st, ok := t.Underlying().(*types.Struct)
		if !ok {
			fc.g.unmodelled["store-struct:"+t.String()]++
			return
		}
		for i := 0; i < st.NumFields() && i < len(v.elems); i++ {
			fc.store(st.Field(i).Type(), ref, addOff(off, fieldOff(st, i)), v.elems[i])
		}
		return
	default:
		fc.g.unmodelled["store:"+t.String()]++
	}
	fc.nameHeaps()
	switch v.k {
	case kInt, kFloat, kBool, kPtr, kSlice, kIface, kArr:
		if fc.fwd == nil {
			fc.fwd = map[string]*val{}
		}
		fc.fwd[fc.fwdKey(t, ref, off)] = v
	}
}

// nameHeaps binds long heap terms to fresh constants
func (fc *fnCtx) nameHeaps() {
	for _, hk := range fc.g.heapKinds() {
		t := fc.curH[hk.name]
		if len(t) > 160 {
			fc.curH[hk.name] = fc.g.bind(hk.name, heapSort(hk.sort), t)
		}
	}
}

// alloc returns a fresh object; only the heap kinds that hold scalars of type t are zero-initialised (the others are
// never read at this object by type safety), which keeps the untouched heap arrays syntactically stable.
func (fc *fnCtx) alloc(tag string, t types.Type) string {
	g := fc.g
	ref := g.declare(g.freshName(fc.pfx+"new_"+tag), "Int")
	g.assume(fmt.Sprintf("(= %s %s)", ref, fc.curAC))
	fc.curAC = g.bind("AC", "Int", fmt.Sprintf("(+ %s 1)", fc.curAC))
	zero := map[string]bool{"GL": true}
	if t != nil {
		for _, k := range kindsOf(t) {
			zero[k] = true
		}
	}
	for _, hk := range g.heapKinds() {
		if !zero[hk.name] {
			continue
		}
		fc.curH[hk.name] = fmt.Sprintf("(store %s %s ((as const %s) %s))", fc.curH[hk.name], ref, rowSort(hk.sort), hk.zero)
	}
	fc.nameHeaps()
	return ref
}

// havocHeap replaces the heap by an unconstrained one except for the rows selected by keep (an SMT predicate over r)
// and the immutable string constants.
func (fc *fnCtx) havocHeap(tag, keep string, keepGhost bool) {
	g := fc.g
	if keep == "" {
		// remember the enclosing loops: their frame cannot hold, the next pass havocs everything at their headers
		for c := fc; c != nil; c = c.parent {
			if c.curB == nil {
				continue
			}
			for h := range c.loopOrd {
				if loopBlocks(h)[c.curB] {
					g.loopHavocSeen[h] = true
				}
			}
		}
	}
	fresh := g.freshHeap(tag)
	k := fmt.Sprintf("(< r (- %d))", strRefBase)
	for c := fc; c != nil; c = c.parent {
		for _, sr := range c.stackRefs {
			k = fmt.Sprintf("(or %s (= r %s))", k, sr)
		}
		for _, sr := range c.immRefs {
			k = fmt.Sprintf("(or %s (= r %s))", k, sr) // string data is immutable
		}
	}
	if keep != "" {
		k = fmt.Sprintf("(or %s %s)", k, keep)
	}
	for _, hk := range g.heapKinds() {
		if hk.name == "GL" && keepGhost {
			continue
		}
		cur := fc.curH[hk.name]
		if !isSimple(cur) {
			cur = g.bind(hk.name+"_p", heapSort(hk.sort), cur)
		}
		kk := k
		if hk.name == "GL" {
			kk = fmt.Sprintf("(or %s (= r %s))", k, evRef) // event flags are ghost state of the function under check
		}
		fc.curH[hk.name] = g.bind(hk.name+"_"+tag, heapSort(hk.sort), fmt.Sprintf("(lambda ((r Int)) (ite %s (select %s r) (select %s r)))", kk, cur, fresh[hk.name]))
	}
	ac := g.declare(g.freshName("AC"), "Int")
	g.assume(fmt.Sprintf("(>= %s %s)", ac, fc.curAC))
	if !g.lite {
		g.registerBaseHeap(fresh, ac)
	}
	fc.curAC = ac
}

// derivedAddr: addresses whose non-nilness was already an obligation (field/element addresses) or holds by construction.
func derivedAddr(a ssa.Value) bool {
	switch a.(type) {
	case *ssa.FieldAddr, *ssa.IndexAddr, *ssa.Alloc, *ssa.Global:
		return true
	}
	return false
}

// allocVars: names of source variables of this function that live in memory (address-taken or captured).
func (fc *fnCtx) allocVars() map[string]bool {
	if fc.allocNames != nil {
		return fc.allocNames
	}
	fc.allocNames = map[string]bool{}
	named := map[string]bool{}
	for _, b := range fc.fn.Blocks {
		for _, in := range b.Instrs {
			if d, ok := in.(*ssa.DebugRef); ok && d.IsAddr {
				if id, ok := d.Expr.(*ast.Ident); ok {
					if a, ok := d.X.(*ssa.Alloc); ok && a.Comment == id.Name {
						named[id.Name] = true
					}
				}
			}
		}
	}
	for n := range named {
		fc.allocNames[n] = true
	}
	return fc.allocNames
}

func isErrorType(t types.Type) bool {
	n, ok := t.(*types.Named)
	return ok && n.Obj().Pkg() == nil && n.Obj().Name() == "error"
}
