package main

import (
	"fmt"
	"go/types"
	"sort"
	"strings"
)

// Type-based separation (DESIGN 2.2, added in the build round): every allocated object has one allocation type; two
// references can designate the same object only if their element types can be parts of one allocation type. We
// partition all "atoms" (basic types, named/unnamed struct types, slot types of pointer-like fields) of the loaded
// program by the closure of "is contained by value in" and assume CLS(ref) = class(element type) for every typed
// reference. Sound for programs without unsafe pointer conversions (closed world: all packages reachable from the
// loaded ones are scanned).

type typeClasses struct {
	hasBytes   map[int]bool               // root id -> the allocation type contains byte cells by value
	containers map[string]map[string]bool // atom -> allocation root types that contain it by value (incl. itself)
	ids        map[string]int
	seenT      map[string]bool
}

func newTypeClasses() *typeClasses {
	return &typeClasses{hasBytes: map[int]bool{}, containers: map[string]map[string]bool{}, ids: map[string]int{}, seenT: map[string]bool{}}
}

// atomKey: named/unnamed struct types and the slot types of pointer-like values are atoms; basic types are not
// (a byte or an int can be part of anything, so nothing is assumed about references to them).
func atomKey(t types.Type) string {
	switch u := t.(type) {
	case *types.Named:
		if _, ok := u.Underlying().(*types.Struct); ok {
			return "T:" + types.TypeString(u, nil)
		}
		return atomKey(u.Underlying())
	case *types.Alias:
		return atomKey(types.Unalias(u))
	case *types.Basic:
		switch u.Kind() {
		case types.String, types.UntypedString:
			return "slot:string"
		}
		return ""
	case *types.Struct:
		return "S:" + u.String()
	case *types.Array:
		return atomKey(u.Elem())
	case *types.Pointer, *types.Slice, *types.Map, *types.Chan, *types.Signature, *types.Interface:
		return "slot:" + types.TypeString(t, nil)
	}
	return ""
}

func (tc *typeClasses) addContainer(atom, root string) {
	if atom == "" {
		return
	}
	m := tc.containers[atom]
	if m == nil {
		m = map[string]bool{atom: true}
		tc.containers[atom] = m
	}
	m[root] = true
}

// contained lists the atoms a type contains by value (transitively), including itself.
func (tc *typeClasses) contained(t types.Type, out map[string]bool, depth int) {
	if depth > 12 {
		return
	}
	k := atomKey(t)
	if k != "" {
		out[k] = true
	}
	switch u := t.Underlying().(type) {
	case *types.Struct:
		for i := 0; i < u.NumFields(); i++ {
			tc.contained(u.Field(i).Type(), out, depth+1)
		}
	case *types.Array:
		tc.contained(u.Elem(), out, depth+1)
	}
}

func (tc *typeClasses) scanType(t types.Type) {
	key := atomKey(t)
	if key == "" || tc.seenT[key] {
		return
	}
	tc.seenT[key] = true
	tc.hasBytes[tc.id(key)] = containsByte(t, 0)
	atoms := map[string]bool{}
	tc.contained(t, atoms, 0)
	for a := range atoms {
		tc.addContainer(a, key)
	}
}

func (tc *typeClasses) scanPackage(p *types.Package, seen map[*types.Package]bool) {
	if seen[p] {
		return
	}
	seen[p] = true
	sc := p.Scope()
	for _, n := range sc.Names() {
		if tn, ok := sc.Lookup(n).(*types.TypeName); ok {
			if _, isStruct := tn.Type().Underlying().(*types.Struct); isStruct {
				if named, ok := tn.Type().(*types.Named); ok && named.TypeParams().Len() > 0 {
					continue
				}
				tc.scanType(tn.Type())
			}
		}
	}
	for _, imp := range p.Imports() {
		tc.scanPackage(imp, seen)
	}
}

const bytesClassID = 1 // plain byte arrays (make([]byte), [N]byte variables, string data)

// containsByte: does a value of type t hold byte cells by value?
func containsByte(t types.Type, depth int) bool {
	if depth > 12 {
		return true
	}
	if w, _, ok := intW(t); ok {
		return w == 8
	}
	switch u := t.Underlying().(type) {
	case *types.Struct:
		for i := 0; i < u.NumFields(); i++ {
			if containsByte(u.Field(i).Type(), depth+1) {
				return true
			}
		}
	case *types.Array:
		return containsByte(u.Elem(), depth+1)
	}
	return false
}

func (tc *typeClasses) id(root string) int {
	id, ok := tc.ids[root]
	if !ok {
		id = len(tc.ids) + 2 // 1 is reserved for plain byte arrays
		tc.ids[root] = id
	}
	return id
}

// rootIDs: ids of the allocation root types an element of type t can be part of; nil = unconstrained.
func (tc *typeClasses) rootIDs(t types.Type) []int {
	k := atomKey(t)
	if k == "" {
		return nil
	}
	tc.scanType(t)
	m := tc.containers[k]
	if m == nil {
		m = map[string]bool{k: true}
		tc.containers[k] = m
	}
	if len(m) > 10 {
		return nil
	}
	var out []int
	for r := range m {
		out = append(out, tc.id(r))
	}
	sort.Ints(out)
	return out
}

// elemTypeOfRef: the element type designated by a reference-typed value of static type t (nil if none).
func elemTypeOfRef(t types.Type) types.Type {
	if t == nil {
		return nil
	}
	switch u := t.Underlying().(type) {
	case *types.Pointer:
		return u.Elem()
	case *types.Slice:
		return u.Elem()
	case *types.Basic:
		if u.Info()&types.IsString != 0 {
			return types.Typ[types.Uint8]
		}
	}
	return nil
}

// classAssume emits CLS(ref) = class for a typed reference value.
func (fc *fnCtx) classAssume(v *val, t types.Type, guard string) {
	g := fc.g
	if g.lite || g.w.classes == nil || t == nil {
		return
	}
	switch v.k {
	case kOpaque:
		// a map reference designates a map object of exactly that map type (maps are never parts of other objects)
		mt, ok := t.Underlying().(*types.Map)
		if !ok || len(v.t) == 0 || guard == "#skip" {
			return
		}
		id := g.w.classes.id("MAP:" + types.TypeString(mt, nil))
		g.declFun("CLS", "(Int) Int")
		g.declFun("HASBYTES", "(Int) Bool")
		if key := fmt.Sprintf("hasbytes:%d", id); !g.specDefs[key] {
			g.specDefs[key] = true
			g.assume(fmt.Sprintf("(not (HASBYTES %d))", id))
		}
		g.declFun("ISMAP", "(Int) Bool")
		if mk := fmt.Sprintf("ismap:%d", id); !g.specDefs[mk] {
			g.specDefs[mk] = true
			g.assume(fmt.Sprintf("(ISMAP %d)", id))
		}
		f := fmt.Sprintf("(or (= %s 0) (= (CLS %s) %d))", v.t[0], v.t[0], id)
		if guard != "" && guard != "true" {
			f = fmt.Sprintf("(=> %s %s)", guard, f)
		}
		g.assume(f)
	case kPtr, kSlice:
		et := elemTypeOfRef(t)
		if et == nil {
			return
		}
		if guard == "#skip" {
			return
		}
		if w, _, isInt := intW(et); isInt && w == 8 {
			// byte references designate objects that hold bytes
			g.declFun("CLS", "(Int) Int")
			g.declFun("HASBYTES", "(Int) Bool")
			if !g.specDefs["hasbytes:1"] {
				g.specDefs["hasbytes:1"] = true
				g.assume(fmt.Sprintf("(HASBYTES %d)", bytesClassID))
			}
			f := fmt.Sprintf("(or (= %s 0) (< %s (- %d)) (HASBYTES (CLS %s)))", v.t[0], v.t[0], strRefBase, v.t[0])
			if guard != "" && guard != "true" {
				f = fmt.Sprintf("(=> %s %s)", guard, f)
			}
			g.assume(f)
			return
		}
		ids := g.w.classes.rootIDs(et)
		if ids == nil {
			if g.ufDecl["ISMAP"] {
				// a reference of unconstrained class still never designates a map object
				g.declFun("CLS", "(Int) Int")
				f := fmt.Sprintf("(or (= %s 0) (not (ISMAP (CLS %s))))", v.t[0], v.t[0])
				if guard != "" && guard != "true" {
					f = fmt.Sprintf("(=> %s %s)", guard, f)
				}
				g.assume(f)
			}
			return
		}
		g.declFun("CLS", "(Int) Int")
		g.declFun("HASBYTES", "(Int) Bool")
		for _, id := range ids {
			if mk := fmt.Sprintf("ismap:%d", id); g.ufDecl["ISMAP"] && !g.specDefs[mk] {
				g.specDefs[mk] = true
				g.assume(fmt.Sprintf("(not (ISMAP %d))", id)) // struct / slice-element classes are not map classes
			}
			key := fmt.Sprintf("hasbytes:%d", id)
			if !g.specDefs[key] {
				g.specDefs[key] = true
				if g.w.classes.hasBytes[id] {
					g.assume(fmt.Sprintf("(HASBYTES %d)", id))
				} else {
					g.assume(fmt.Sprintf("(not (HASBYTES %d))", id))
				}
			}
		}
		parts := []string{fmt.Sprintf("(= %s 0)", v.t[0])}
		for _, id := range ids {
			parts = append(parts, fmt.Sprintf("(= (CLS %s) %d)", v.t[0], id))
		}
		f := "(or " + strings.Join(parts, " ") + ")"
		if guard != "" && guard != "true" {
			f = fmt.Sprintf("(=> %s %s)", guard, f)
		}
		g.assume(f)
	case kStruct, kTuple:
		var st *types.Struct
		var tup *types.Tuple
		if t != nil {
			st, _ = t.Underlying().(*types.Struct)
			tup, _ = t.(*types.Tuple)
		}
		for i, e := range v.elems {
			switch {
			case st != nil && i < st.NumFields():
				fc.classAssume(e, st.Field(i).Type(), guard)
			case tup != nil && i < tup.Len():
				fc.classAssume(e, tup.At(i).Type(), guard)
			}
		}
	}
}
