package main

import (
	"fmt"
	"go/ast"
	"go/constant"
	"go/token"
	"go/types"
	"strconv"
	"strings"

	"golang.org/x/tools/go/ssa"
)

// specCtx evaluates contract expressions (Go expression syntax plus imp/old/forall/sha/...) to SMT terms.
type specCtx struct {
	fc       *fnCtx
	g        *gen
	fn       *ssa.Function // function whose parameter/result names are in scope
	args     map[string]*val
	names    map[string]*val
	h, oldH  heap
	results  []*val
	guard    string
	shows    []showTerm
	bound    map[string]*val
	atBlock  *ssa.BasicBlock
	atRet    bool // evaluation at a return site: locals resolve to the binding live there
	ifacePkg *types.Package
	loopHdr  *ssa.BasicBlock
	coll     *[]instFn // collects positive universally quantified facts for term-directed instantiation
	noColl   bool
	skolems  map[string]*val
	cells    map[*ssa.Alloc]*val
	acOld    string // allocation counter of the pre-state (for fresh(x))
	prove    bool // the expression is an obligation: positive foralls are skolemised (logical variables)
	cguards  []string
}

// instFn: a universally quantified assumption `forall q. body`; instances are added at the index terms the code uses.
type instFn struct {
	bound string
	body  string
	used  int
}

func (fc *fnCtx) specCtxEntry() *specCtx {
	return &specCtx{fc: fc, g: fc.g, fn: fc.fn, h: fc.entryHeap, oldH: fc.entryHeap, guard: "true", atBlock: nil}
}

func (fc *fnCtx) specCtxAt(names map[string]*val, h heap) *specCtx {
	return &specCtx{fc: fc, g: fc.g, fn: fc.fn, names: names, h: h, oldH: fc.entryHeap, guard: fc.curR, atBlock: fc.curB}
}

func (fc *fnCtx) specCtxRet(rs retSite) *specCtx {
	return &specCtx{fc: fc, g: fc.g, fn: fc.fn, h: rs.h, oldH: fc.entryHeap, results: rs.vals, guard: rs.reach, cells: rs.cells, acOld: fc.entryAC, atBlock: rs.blk, atRet: true}
}

func (sc *specCtx) boolExpr(src string) (string, error) {
	v, err := sc.term(src)
	if err != nil {
		return "", err
	}
	if v.k != kBool {
		return "", fmt.Errorf("not boolean: %s", src)
	}
	return v.t[0], nil
}

func (sc *specCtx) term(src string) (*val, error) {
	e, err := parseSpec(src)
	if err != nil {
		return nil, err
	}
	return sc.ev(e)
}

func (sc *specCtx) pkg() *types.Package {
	if sc.ifacePkg != nil {
		return sc.ifacePkg
	}
	for f := sc.fn; f != nil; f = f.Parent() {
		if f.Pkg != nil {
			return f.Pkg.Pkg
		}
		if f.Object() != nil {
			return f.Object().Pkg()
		}
	}
	return nil
}

func (sc *specCtx) lookup(name string) (*val, error) {
	if v, ok := sc.bound[name]; ok {
		return v, nil
	}
	if v, ok := sc.names[name]; ok {
		return v, nil
	}
	if v, ok := sc.args[name]; ok {
		return v, nil
	}
	if sc.fc != nil && sc.atBlock != nil && sc.args == nil && !sc.atRet {
		// loop-carried variables of the enclosing loops (innermost first)
		var best *ssa.BasicBlock
		var bestV *val
		for h, names := range sc.fc.loopNames {
			v, ok := names[name]
			if !ok || h == sc.atBlock {
				continue
			}
			if !loopBlocks(h)[sc.atBlock] {
				continue
			}
			if best == nil || best.Dominates(h) {
				best, bestV = h, v
			}
		}
		if bestV != nil {
			return bestV, nil
		}
	}
	sig := sc.fn.Signature
	if sc.results != nil {
		if name == "result" && len(sc.results) >= 1 {
			return sc.results[0], nil
		}
		if len(name) >= 2 && name[0] == 'r' {
			if i, err := strconv.Atoi(name[1:]); err == nil && i < len(sc.results) {
				return sc.results[i], nil
			}
		}
		for i := 0; i < sig.Results().Len(); i++ {
			if sig.Results().At(i).Name() == name && i < len(sc.results) {
				return sc.results[i], nil
			}
		}
	}
	if sc.args == nil && sc.fc != nil {
		for _, p := range sc.fn.Params {
			if p.Name() == name {
				return sc.fc.vals[p], nil
			}
		}
		for _, p := range sc.fn.FreeVars {
			if p.Name() == name {
				// free variables are pointers to the captured variable
				pv := sc.fc.vals[p]
				if pt, ok := p.Type().(*types.Pointer); ok {
					return sc.fc.loadH(sc.h, pt.Elem(), pv.t[0], pv.t[1], sc.ag()), nil
				}
				return pv, nil
			}
		}
		// local variable through debug info: the latest binding in a block dominating the evaluation point
		if bs := sc.fc.locals[name]; len(bs) > 0 {
			for i := len(bs) - 1; i >= 0; i-- {
				lb := bs[i]
				if sc.atBlock == nil || lb.b == sc.atBlock || lb.b.Dominates(sc.atBlock) {
					if lb.cell != nil {
						cm := sc.cells
						if cm == nil {
							cm = sc.fc.cells
						}
						if v, ok := cm[lb.cell]; ok {
							c := *v
							c.ty = lb.ty
							return &c, nil
						}
						return sc.g.zeroVal(lb.ty), nil
					}
					if lb.isAddr {
						return sc.fc.loadH(sc.h, lb.ty, lb.v.t[0], lb.v.t[1], sc.ag()), nil
					}
					return lb.v, nil
				}
			}
			if sc.atRet {
				// the variable is not in scope at this return (declared later or in another branch): its value there is
				// arbitrary; the clause must guard it. An unconstrained value of its type keeps the clause evaluable.
				last := bs[len(bs)-1]
				ty := last.ty
				if ty == nil && last.v != nil {
					ty = last.v.ty
				}
				if ty != nil {
					return sc.g.newVal("outofscope_"+name, ty), nil
				}
			}
		}
	}
	switch name {
	case "true", "false":
		return &val{k: kBool, t: []string{name}}, nil
	case "nil":
		return &val{k: kOpaque, t: []string{"0"}, untyped: true}, nil
	}
	if p := sc.pkg(); p != nil {
		if obj := p.Scope().Lookup(name); obj != nil {
			return sc.objVal(obj)
		}
	}
	if obj := types.Universe.Lookup(name); obj != nil {
		if c, ok := obj.(*types.Const); ok {
			return sc.constVal(c.Val(), c.Type())
		}
	}
	return nil, fmt.Errorf("unknown identifier %s", name)
}

func (sc *specCtx) objVal(obj types.Object) (*val, error) {
	switch o := obj.(type) {
	case *types.Const:
		return sc.constVal(o.Val(), o.Type())
	case *types.Var:
		ref := sc.g.w.globalRef(o.Pkg().Path() + "." + o.Name())
		v := sc.fc.loadH(sc.h, o.Type(), ref, z64, sc.ag())
		if isErrorType(o.Type()) {
			sc.g.assume(fmt.Sprintf("(not (= %s 0))", v.t[0]))
		}
		return v, nil
	}
	return nil, fmt.Errorf("unsupported object %s", obj)
}

func (sc *specCtx) constVal(cv constant.Value, t types.Type) (*val, error) {
	switch cv.Kind() {
	case constant.Bool:
		return &val{k: kBool, t: []string{fmt.Sprint(constant.BoolVal(cv))}}, nil
	case constant.Int:
		var n uint64
		if i, ok := constant.Int64Val(cv); ok {
			n = uint64(i)
		} else if u, ok := constant.Uint64Val(cv); ok {
			n = u
		} else {
			return nil, fmt.Errorf("constant too large")
		}
		if b, ok := t.Underlying().(*types.Basic); ok && b.Info()&types.IsUntyped != 0 {
			return &val{k: kInt, w: 64, signed: true, untyped: true, t: []string{bv(64, n)}}, nil
		}
		w, s, _ := intW(t)
		return &val{k: kInt, w: w, signed: s, ty: t, t: []string{bv(w, n)}}, nil
	case constant.String:
		return sc.g.stringConst(constant.StringVal(cv), types.Typ[types.String]), nil
	}
	return nil, fmt.Errorf("unsupported constant kind")
}

func litVal(n uint64) *val {
	return &val{k: kInt, w: 64, signed: true, untyped: true, t: []string{bv(64, n)}}
}

// unify adapts untyped literals to the other operand.
func unify(a, b *val) (*val, *val) {
	if a.k == kInt && b.k == kInt {
		if a.untyped && !b.untyped {
			a = retype(a, b)
		} else if b.untyped && !a.untyped {
			b = retype(b, a)
		}
	}
	return a, b
}

func retype(lit, like *val) *val {
	out := &val{k: kInt, w: like.w, signed: like.signed, ty: like.ty}
	if like.w == lit.w {
		out.t = []string{lit.t[0]}
	} else if like.w < lit.w {
		out.t = []string{fmt.Sprintf("((_ extract %d 0) %s)", like.w-1, lit.t[0])}
	} else {
		out.t = []string{fmt.Sprintf("((_ sign_extend %d) %s)", like.w-lit.w, lit.t[0])}
	}
	return out
}

func (sc *specCtx) typeOfExpr(e ast.Expr) types.Type {
	// type names used in conversions
	switch x := e.(type) {
	case *ast.Ident:
		if obj := types.Universe.Lookup(x.Name); obj != nil {
			if tn, ok := obj.(*types.TypeName); ok {
				return tn.Type()
			}
		}
		if p := sc.pkg(); p != nil {
			if obj := p.Scope().Lookup(x.Name); obj != nil {
				if tn, ok := obj.(*types.TypeName); ok {
					return tn.Type()
				}
			}
		}
	case *ast.ParenExpr:
		return sc.typeOfExpr(x.X)
	case *ast.StarExpr:
		if t := sc.typeOfExpr(x.X); t != nil {
			return types.NewPointer(t)
		}
	case *ast.ArrayType:
		if x.Len == nil {
			if t := sc.typeOfExpr(x.Elt); t != nil {
				return types.NewSlice(t)
			}
		}
	}
	return nil
}

func (sc *specCtx) ev(e ast.Expr) (*val, error) {
	g := sc.g
	switch x := e.(type) {
	case *ast.ParenExpr:
		return sc.ev(x.X)
	case *ast.BasicLit:
		switch x.Kind {
		case token.INT:
			n, err := strconv.ParseUint(strings.ReplaceAll(x.Value, "_", ""), 0, 64)
			if err != nil {
				return nil, err
			}
			return litVal(n), nil
		case token.CHAR:
			r, _, _, err := strconv.UnquoteChar(x.Value[1:len(x.Value)-1], '\'')
			if err != nil {
				return nil, err
			}
			return litVal(uint64(r)), nil
		case token.STRING:
			s, err := strconv.Unquote(x.Value)
			if err != nil {
				return nil, err
			}
			return g.stringConst(s, types.Typ[types.String]), nil
		}
	case *ast.Ident:
		return sc.lookup(x.Name)
	case *ast.SelectorExpr:
		// package-qualified name?
		if id, ok := x.X.(*ast.Ident); ok {
			if _, err := sc.lookup(id.Name); err != nil {
				if p := sc.pkg(); p != nil {
					for _, imp := range p.Imports() {
						if imp.Name() == id.Name {
							if obj := imp.Scope().Lookup(x.Sel.Name); obj != nil {
								return sc.objVal(obj)
							}
						}
					}
				}
				return nil, err
			}
		}
		b, err := sc.ev(x.X)
		if err != nil {
			return nil, err
		}
		return sc.field(b, x.Sel.Name)
	case *ast.StarExpr:
		b, err := sc.ev(x.X)
		if err != nil {
			return nil, err
		}
		pt, ok := b.ty.Underlying().(*types.Pointer)
		if !ok || b.k != kPtr {
			return nil, fmt.Errorf("deref of non-pointer")
		}
		return sc.fc.loadH(sc.h, pt.Elem(), b.t[0], b.t[1], sc.ag()), nil
	case *ast.IndexExpr:
		b, err := sc.ev(x.X)
		if err != nil {
			return nil, err
		}
		idx, err := sc.ev(x.Index)
		if err != nil {
			return nil, err
		}
		return sc.index(b, idx)
	case *ast.SliceExpr:
		// slicing an array FIELD reached through a pointer (hdr.Eh[8:]) addresses memory, it does not load the array
		if se, ok := x.X.(*ast.SelectorExpr); ok {
			if base, err := sc.ev(se.X); err == nil && base.k == kPtr && base.ty != nil {
				if pt, ok := base.ty.Underlying().(*types.Pointer); ok {
					if st, ok := pt.Elem().Underlying().(*types.Struct); ok {
						for i := 0; i < st.NumFields(); i++ {
							if at, ok := st.Field(i).Type().Underlying().(*types.Array); ok && st.Field(i).Name() == se.Sel.Name {
								n := bv(64, uint64(at.Len()))
								arr := &val{k: kSlice, constLen: int(at.Len()), ty: types.NewSlice(at.Elem()),
									t: []string{base.t[0], addOff(base.t[1], fieldOff(st, i)), n, n}}
								return sc.slice(arr, x)
							}
						}
					}
				}
			}
		}
		b, err := sc.ev(x.X)
		if err != nil {
			return nil, err
		}
		return sc.slice(b, x)
	case *ast.UnaryExpr:
		su := sc
		if x.Op == token.NOT {
			c := *sc
			c.noColl = true
			su = &c
		}
		a, err := su.ev(x.X)
		if err != nil {
			return nil, err
		}
		switch x.Op {
		case token.NOT:
			return &val{k: kBool, t: []string{"(not " + a.t[0] + ")"}}, nil
		case token.SUB:
			return &val{k: kInt, w: a.w, signed: true, ty: a.ty, untyped: a.untyped, t: []string{"(bvneg " + a.t[0] + ")"}}, nil
		case token.XOR:
			return &val{k: kInt, w: a.w, signed: a.signed, ty: a.ty, untyped: a.untyped, t: []string{"(bvnot " + a.t[0] + ")"}}, nil
		}
	case *ast.BinaryExpr:
		sb := sc
		if x.Op != token.LAND {
			c := *sc
			c.noColl = true
			sb = &c
		}
		a, err := sb.ev(x.X)
		if err != nil {
			return nil, err
		}
		b, err := sb.ev(x.Y)
		if err != nil {
			return nil, err
		}
		return sc.binary(x.Op, a, b)
	case *ast.CallExpr:
		return sc.call(x)
	}
	return nil, fmt.Errorf("unsupported spec expression %T", e)
}

func (sc *specCtx) field(b *val, name string) (*val, error) {
	if b.ty == nil {
		return nil, fmt.Errorf("selector .%s on untyped value", name)
	}
	var st *types.Struct
	isPtr := false
	switch u := b.ty.Underlying().(type) {
	case *types.Pointer:
		st, _ = u.Elem().Underlying().(*types.Struct)
		isPtr = true
	case *types.Struct:
		st = u
	}
	if st == nil {
		return nil, fmt.Errorf("selector .%s on non-struct %s", name, b.ty)
	}
	for i := 0; i < st.NumFields(); i++ {
		f := st.Field(i)
		if f.Name() == name {
			if isPtr {
				return sc.fc.loadH(sc.h, f.Type(), b.t[0], addOff(b.t[1], fieldOff(st, i)), sc.ag()), nil
			}
			if b.k == kStruct {
				return b.elems[i], nil
			}
		}
		if f.Embedded() {
			// one level of promotion through embedded structs
			var inner *val
			if isPtr {
				inner = sc.fc.loadH(sc.h, f.Type(), b.t[0], addOff(b.t[1], fieldOff(st, i)), sc.ag())
			} else if b.k == kStruct {
				inner = b.elems[i]
			}
			if inner != nil {
				if v, err := sc.field(inner, name); err == nil {
					return v, nil
				}
			}
		}
	}
	return nil, fmt.Errorf("no field %s in %s", name, b.ty)
}

func (sc *specCtx) index(b, idx *val) (*val, error) {
	if b.k == kOpaque && b.ty != nil {
		if mt, ok := mapModelled(b.ty); ok && sc.fc != nil {
			if v, _, ok := sc.fc.mapGet(sc.h, mt, b, idx, sc.ag()); ok {
				return v, nil // m[k]: the stored value, or the zero value when absent
			}
		}
		return nil, fmt.Errorf("index on a map that is not modelled (%s)", b.ty)
	}
	if idx.k != kInt {
		return nil, fmt.Errorf("non-integer index")
	}
	i64 := zext(idx, 64)
	if len(sc.bound) == 0 && sc.fc != nil {
		sc.fc.instantiateAt(i64)
	}
	switch b.k {
	case kSlice:
		var et types.Type = types.Typ[types.Uint8]
		if sl, ok := b.ty.Underlying().(*types.Slice); ok {
			et = sl.Elem()
		}
		es := slots(et)
		off := fmt.Sprintf("(bvadd %s %s)", b.t[1], i64)
		if es != 1 {
			off = fmt.Sprintf("(bvadd %s (bvmul %s %s))", b.t[1], i64, bv(64, uint64(es)))
		}
		return sc.fc.loadH(sc.h, et, b.t[0], off, sc.ag()), nil
	case kArr:
		return &val{k: kInt, w: 8, ty: types.Typ[types.Uint8], t: []string{arrByte(b, i64)}}, nil
	case kPtr:
		if pt, ok := b.ty.Underlying().(*types.Pointer); ok {
			if at, ok := pt.Elem().Underlying().(*types.Array); ok {
				es := slots(at.Elem())
				off := fmt.Sprintf("(bvadd %s (bvmul %s %s))", b.t[1], i64, bv(64, uint64(es)))
				return sc.fc.loadH(sc.h, at.Elem(), b.t[0], off, sc.ag()), nil
			}
		}
	}
	return nil, fmt.Errorf("index on unsupported value")
}

// arrByte selects byte idx (64-bit term) of a byte-array value held as one wide bit-vector.
func arrByte(a *val, idx string) string {
	n := a.w / 8
	if n == 1 {
		return a.t[0]
	}
	// constant index?
	if strings.HasPrefix(idx, "#x") && len(idx) == 18 {
		if k, err := strconv.ParseUint(idx[2:], 16, 64); err == nil && int(k) < n {
			hi := a.w - 1 - 8*int(k)
			return fmt.Sprintf("((_ extract %d %d) %s)", hi, hi-7, a.t[0])
		}
	}
	var sh string
	if a.w >= 64 {
		sh = fmt.Sprintf("(bvlshr %s (bvmul ((_ zero_extend %d) (bvsub %s %s)) %s))", a.t[0], a.w-64, bv(64, uint64(n-1)), idx, wideConst(a.w, 8))
		if a.w == 64 {
			sh = fmt.Sprintf("(bvlshr %s (bvmul (bvsub %s %s) %s))", a.t[0], bv(64, uint64(n-1)), idx, bv(64, 8))
		}
	} else {
		sh = fmt.Sprintf("(bvlshr %s (bvmul ((_ extract %d 0) (bvsub %s %s)) %s))", a.t[0], a.w-1, bv(64, uint64(n-1)), idx, bv(a.w, 8))
	}
	return fmt.Sprintf("((_ extract 7 0) %s)", sh)
}

func wideConst(w int, n uint64) string { return fmt.Sprintf("(_ bv%d %d)", n, w) }

func (sc *specCtx) slice(b *val, x *ast.SliceExpr) (*val, error) {
	if b.k == kPtr {
		// pointer to byte array
		if pt, ok := b.ty.Underlying().(*types.Pointer); ok {
			if at, ok := pt.Elem().Underlying().(*types.Array); ok {
				n := bv(64, uint64(at.Len()))
				b = &val{k: kSlice, constLen: int(at.Len()), ty: types.NewSlice(at.Elem()), t: []string{b.t[0], b.t[1], n, n}}
			}
		}
	}
	if b.k != kSlice {
		return nil, fmt.Errorf("slice of unsupported value")
	}
	var es int64 = 1
	if sl, ok := b.ty.Underlying().(*types.Slice); ok {
		es = slots(sl.Elem())
	}
	lo, hi := z64, b.t[2]
	loC, hiC := 0, b.constLen
	if x.Low != nil {
		v, err := sc.ev(x.Low)
		if err != nil {
			return nil, err
		}
		lo = zext(v, 64)
		loC = constOf(lo)
	}
	if x.High != nil {
		v, err := sc.ev(x.High)
		if err != nil {
			return nil, err
		}
		hi = zext(v, 64)
		hiC = constOf(hi)
	}
	off := fmt.Sprintf("(bvadd %s %s)", b.t[1], lo)
	if es != 1 {
		off = fmt.Sprintf("(bvadd %s (bvmul %s %s))", b.t[1], lo, bv(64, uint64(es)))
	}
	if lo == z64 {
		off = b.t[1]
	}
	out := &val{k: kSlice, constLen: -1, ty: b.ty, t: []string{b.t[0], off, fmt.Sprintf("(bvsub %s %s)", hi, lo), fmt.Sprintf("(bvsub %s %s)", b.t[3], lo)}}
	if loC >= 0 && hiC >= 0 {
		out.constLen = hiC - loC
		out.t[2] = bv(64, uint64(out.constLen))
	}
	return out, nil
}

func constOf(t string) int {
	if strings.HasPrefix(t, "#x") && len(t) == 18 {
		if k, err := strconv.ParseUint(t[2:], 16, 64); err == nil && k < 1<<31 {
			return int(k)
		}
	}
	return -1
}

func (sc *specCtx) binary(op token.Token, a, b *val) (*val, error) {
	bl := func(s string) (*val, error) { return &val{k: kBool, t: []string{s}}, nil }
	switch op {
	case token.LAND:
		return bl(fmt.Sprintf("(and %s %s)", a.t[0], b.t[0]))
	case token.LOR:
		return bl(fmt.Sprintf("(or %s %s)", a.t[0], b.t[0]))
	}
	a, b = unify(a, b)
	if op == token.SHL || op == token.SHR {
		if a.k != kInt || b.k != kInt {
			return nil, fmt.Errorf("shift of non-integers")
		}
		return shiftVal(op, a, b), nil
	}
	switch op {
	case token.EQL, token.NEQ:
		eq, err := eqTerm(a, b)
		if err != nil {
			return nil, err
		}
		if op == token.NEQ {
			eq = "(not " + eq + ")"
		}
		return bl(eq)
	}
	if a.k == kFloat && b.k == kFloat {
		fa, fb := fpOf(a), fpOf(b)
		switch op {
		case token.LSS:
			return bl(fmt.Sprintf("(fp.lt %s %s)", fa, fb))
		case token.LEQ:
			return bl(fmt.Sprintf("(fp.leq %s %s)", fa, fb))
		case token.GTR:
			return bl(fmt.Sprintf("(fp.gt %s %s)", fa, fb))
		case token.GEQ:
			return bl(fmt.Sprintf("(fp.geq %s %s)", fa, fb))
		}
	}
	if a.k != kInt || b.k != kInt {
		return nil, fmt.Errorf("operator %s on non-integers", op)
	}
	if a.w != b.w {
		return nil, fmt.Errorf("operator %s: width mismatch %d vs %d", op, a.w, b.w)
	}
	signed := a.signed
	if a.untyped && b.untyped {
		signed = true
	}
	res := func(t string) (*val, error) {
		return &val{k: kInt, w: a.w, signed: signed, ty: a.ty, untyped: a.untyped && b.untyped, t: []string{t}}, nil
	}
	A, B := a.t[0], b.t[0]
	switch op {
	case token.LSS, token.LEQ, token.GTR, token.GEQ:
		o := map[token.Token]string{token.LSS: "lt", token.LEQ: "le", token.GTR: "gt", token.GEQ: "ge"}[op]
		p := "bvu"
		if signed {
			p = "bvs"
		}
		return bl(fmt.Sprintf("(%s%s %s %s)", p, o, A, B))
	case token.ADD:
		return res(fmt.Sprintf("(bvadd %s %s)", A, B))
	case token.SUB:
		return res(fmt.Sprintf("(bvsub %s %s)", A, B))
	case token.MUL:
		return res(fmt.Sprintf("(bvmul %s %s)", A, B))
	case token.QUO, token.REM:
		if sc.g.absDivMod && !isLiteral(B) && sc.g.inQuant == 0 {
			return res(sc.g.divmodAbs(op == token.QUO, signed, a.w, A, B))
		}
		o := map[bool]map[token.Token]string{true: {token.QUO: "bvsdiv", token.REM: "bvsrem"}, false: {token.QUO: "bvudiv", token.REM: "bvurem"}}[signed][op]
		return res(fmt.Sprintf("(%s %s %s)", o, A, B))
	case token.AND:
		return res(fmt.Sprintf("(bvand %s %s)", A, B))
	case token.OR:
		return res(fmt.Sprintf("(bvor %s %s)", A, B))
	case token.XOR:
		return res(fmt.Sprintf("(bvxor %s %s)", A, B))
	case token.AND_NOT:
		return res(fmt.Sprintf("(bvand %s (bvnot %s))", A, B))
	}
	return nil, fmt.Errorf("unsupported operator %s", op)
}

func fpOf(v *val) string {
	if v.w == 32 {
		return fmt.Sprintf("((_ to_fp 8 24) %s)", v.t[0])
	}
	return fmt.Sprintf("((_ to_fp 11 53) %s)", v.t[0])
}

func shiftVal(op token.Token, a, b *val) *val {
	var cnt string
	if b.w < a.w {
		cnt = fmt.Sprintf("((_ zero_extend %d) %s)", a.w-b.w, b.t[0])
	} else if b.w > a.w {
		cnt = fmt.Sprintf("(ite (bvuge %s %s) %s ((_ extract %d 0) %s))", b.t[0], bv(b.w, uint64(a.w)), bv(a.w, uint64(a.w)), a.w-1, b.t[0])
	} else {
		cnt = b.t[0]
	}
	out := &val{k: kInt, w: a.w, signed: a.signed, ty: a.ty, untyped: a.untyped}
	switch {
	case op == token.SHL:
		out.t = []string{fmt.Sprintf("(bvshl %s %s)", a.t[0], cnt)}
	case a.signed:
		out.t = []string{fmt.Sprintf("(bvashr %s %s)", a.t[0], cnt)}
	default:
		out.t = []string{fmt.Sprintf("(bvlshr %s %s)", a.t[0], cnt)}
	}
	return out
}

func eqTerm(a, b *val) (string, error) {
	isNil := func(v *val) bool { return v.k == kOpaque && v.untyped }
	if isNil(a) {
		a, b = b, a
	}
	if isNil(b) {
		switch a.k {
		case kPtr, kSlice, kOpaque:
			return fmt.Sprintf("(= %s 0)", a.t[0]), nil
		case kIface:
			return fmt.Sprintf("(= %s 0)", a.t[0]), nil
		}
		return "", fmt.Errorf("comparison with nil of non-reference")
	}
	if a.k != b.k {
		return "", fmt.Errorf("comparison of different kinds")
	}
	switch a.k {
	case kInt, kArr:
		if a.w != b.w {
			return "", fmt.Errorf("comparison width mismatch %d vs %d", a.w, b.w)
		}
		if a.k == kArr && a.arrRow != "" && b.arrRow != "" && a.arrRow != b.arrRow && a.arrOff == b.arrOff {
			// the same byte array at the same address in two heaps: equal rows imply equal contents, so the disjunction is
			// equivalent to the content equality; it lets the solver discharge frame facts (`x.f == old(x.f)`) at the level
			// of whole rows instead of byte by byte through every havoc
			return fmt.Sprintf("(or (= %s %s) (= %s %s))", a.arrRow, b.arrRow, a.t[0], b.t[0]), nil
		}
		return fmt.Sprintf("(= %s %s)", a.t[0], b.t[0]), nil
	case kBool, kOpaque:
		return fmt.Sprintf("(= %s %s)", a.t[0], b.t[0]), nil
	case kFloat:
		return fmt.Sprintf("(fp.eq %s %s)", fpOf(a), fpOf(b)), nil
	case kPtr:
		return fmt.Sprintf("(and (= %s %s) (= %s %s))", a.t[0], b.t[0], a.t[1], b.t[1]), nil
	case kIface:
		return fmt.Sprintf("(and (= %s %s) (= %s %s) (= %s %s))", a.t[0], b.t[0], a.t[1], b.t[1], a.t[2], b.t[2]), nil
	case kStruct, kTuple:
		var parts []string
		for i := range a.elems {
			p, err := eqTerm(a.elems[i], b.elems[i])
			if err != nil {
				return "", err
			}
			parts = append(parts, p)
		}
		return and(parts...), nil
	case kSlice:
		// identity of slice headers (contents: use eqBytes)
		return fmt.Sprintf("(and (= %s %s) (= %s %s) (= %s %s))", a.t[0], b.t[0], a.t[1], b.t[1], a.t[2], b.t[2]), nil
	}
	return "", fmt.Errorf("unsupported comparison")
}

func (sc *specCtx) call(x *ast.CallExpr) (*val, error) {
	g := sc.g
	evArgs := func() ([]*val, error) {
		var out []*val
		for _, a := range x.Args {
			v, err := sc.ev(a)
			if err != nil {
				return nil, err
			}
			out = append(out, v)
		}
		return out, nil
	}
	// conversion?
	if t := sc.typeOfExpr(x.Fun); t != nil && len(x.Args) == 1 {
		a, err := sc.ev(x.Args[0])
		if err != nil {
			return nil, err
		}
		if w, s, ok := intW(t); ok && a.k == kInt {
			if a.untyped {
				return retype(a, &val{w: w, signed: s, ty: t}), nil
			}
			return &val{k: kInt, w: w, signed: s, ty: t, t: []string{zext(a, w)}}, nil
		}
		if a.k == kSlice || a.k == kArr || a.k == kPtr {
			out := *a
			out.ty = t
			return &out, nil
		}
		return nil, fmt.Errorf("unsupported conversion to %s", t)
	}
	if se, ok := x.Fun.(*ast.SelectorExpr); ok {
		// pkg.Func(args): exported spec / pure function of an imported (or the same) package
		if pid, ok := se.X.(*ast.Ident); ok {
			if p := sc.pkg(); p != nil {
				cands := append([]*types.Package{p}, p.Imports()...)
				for _, imp := range cands {
					if imp.Name() != pid.Name {
						continue
					}
					if obj, ok := imp.Scope().Lookup(se.Sel.Name).(*types.Func); ok {
						if fn := g.w.prog.FuncValue(obj); fn != nil {
							as, err := evArgs()
							if err != nil {
								return nil, err
							}
							return sc.fc.pureCall(fn, as, sc.h, sc.ag()), nil
						}
					}
				}
			}
		}
	}
	if se, ok := x.Fun.(*ast.SelectorExpr); ok {
		// method call on a value: recv.M(args) with M pure
		if recv, err := sc.ev(se.X); err == nil && recv.ty != nil {
			obj, _, _ := types.LookupFieldOrMethod(recv.ty, true, sc.pkg(), se.Sel.Name)
			if mf, ok := obj.(*types.Func); ok {
				if fn := g.w.prog.FuncValue(mf); fn != nil {
					as, err := evArgs()
					if err != nil {
						return nil, err
					}
					return sc.fc.pureCall(fn, append([]*val{recv}, as...), sc.h, sc.ag()), nil
				}
			}
		}
	}
	id, _ := x.Fun.(*ast.Ident)
	if id == nil {
		return nil, fmt.Errorf("unsupported call in spec")
	}
	switch id.Name {
	case "imp":
		sa := *sc
		sa.noColl = true
		a, err := sa.ev(x.Args[0])
		if err != nil {
			return nil, err
		}
		sb := *sc
		sb.cguards = append(append([]string{}, sc.cguards...), a.t[0])
		b, err := sb.ev(x.Args[1])
		if err != nil {
			return nil, err
		}
		return &val{k: kBool, t: []string{fmt.Sprintf("(=> %s %s)", a.t[0], b.t[0])}}, nil
	case "old":
		sub := *sc
		sub.h = sc.oldH
		sub.results = nil
		sub.names = nil
		if len(sc.skolems) > 0 {
			sub.names = sc.skolems
		}
		return sub.ev(x.Args[0])
	case "len", "cap":
		as, err := evArgs()
		if err != nil {
			return nil, err
		}
		a := as[0]
		switch a.k {
		case kSlice:
			i := 2
			if id.Name == "cap" {
				i = 3
			}
			return &val{k: kInt, w: 64, signed: true, ty: types.Typ[types.Int], t: []string{a.t[i]}}, nil
		case kArr:
			return &val{k: kInt, w: 64, signed: true, ty: types.Typ[types.Int], t: []string{bv(64, uint64(a.w/8))}}, nil
		case kPtr:
			if pt, ok := a.ty.Underlying().(*types.Pointer); ok {
				if at, ok := pt.Elem().Underlying().(*types.Array); ok {
					return &val{k: kInt, w: 64, signed: true, ty: types.Typ[types.Int], t: []string{bv(64, uint64(at.Len()))}}, nil
				}
			}
		}
		return nil, fmt.Errorf("len of unsupported value")
	case "min", "max":
		as, err := evArgs()
		if err != nil {
			return nil, err
		}
		a, b := unify(as[0], as[1])
		op := "bvsle"
		if !a.signed {
			op = "bvule"
		}
		if id.Name == "max" {
			return &val{k: kInt, w: a.w, signed: a.signed, ty: a.ty, t: []string{fmt.Sprintf("(ite (%s %s %s) %s %s)", op, a.t[0], b.t[0], b.t[0], a.t[0])}}, nil
		}
		return &val{k: kInt, w: a.w, signed: a.signed, ty: a.ty, t: []string{fmt.Sprintf("(ite (%s %s %s) %s %s)", op, a.t[0], b.t[0], a.t[0], b.t[0])}}, nil
	case "forall", "exists":
		// forall(i, lo, hi, P): i ranges over int in [lo, hi)
		if len(x.Args) != 4 {
			return nil, fmt.Errorf("%s(i, lo, hi, P) expected", id.Name)
		}
		vi, ok := x.Args[0].(*ast.Ident)
		if !ok {
			return nil, fmt.Errorf("bound variable must be an identifier")
		}
		lo, err := sc.ev(x.Args[1])
		if err != nil {
			return nil, err
		}
		hi, err := sc.ev(x.Args[2])
		if err != nil {
			return nil, err
		}
		if id.Name == "forall" && sc.prove && !sc.noColl && len(sc.bound) == 0 && sc.fc != nil {
			// logical variable: prove P for a fresh constant and let the quantified assumptions be instantiated at it
			sk := g.declare(g.freshName("sk_"+vi.Name), "(_ BitVec 64)")
			sc.fc.instantiateAt(sk)
			// shifted instances: sub-slices s[lo:] and one-element shifts (insert/remove) relate index q to q±lo, q±1
			sc.fc.instantiateAt(fmt.Sprintf("(bvadd %s #x0000000000000001)", sk))
			sc.fc.instantiateAt(fmt.Sprintf("(bvsub %s #x0000000000000001)", sk))
			top := sc.fc.topCtx()
			for i, lo := range top.sliceLos {
				if i >= 6 {
					break
				}
				sc.fc.instantiateAt(fmt.Sprintf("(bvadd %s %s)", sk, lo))
				sc.fc.instantiateAt(fmt.Sprintf("(bvsub %s %s)", sk, lo))
			}
			sub := *sc
			sub.names = map[string]*val{}
			for k, v := range sc.names {
				sub.names[k] = v
			}
			sub.names[vi.Name] = &val{k: kInt, w: 64, signed: true, ty: types.Typ[types.Int], t: []string{sk}}
			sub.skolems = map[string]*val{}
			for k, v := range sc.skolems {
				sub.skolems[k] = v
			}
			sub.skolems[vi.Name] = sub.names[vi.Name]
			p, err := sub.ev(x.Args[3])
			if err != nil {
				return nil, err
			}
			rng := fmt.Sprintf("(and (bvsle %s %s) (bvslt %s %s))", zext(lo, 64), sk, sk, zext(hi, 64))
			return &val{k: kBool, t: []string{fmt.Sprintf("(=> %s %s)", rng, p.t[0])}}, nil
		}
		name := g.freshName("q_" + vi.Name)
		sub := *sc
		sub.bound = map[string]*val{}
		for k, v := range sc.bound {
			sub.bound[k] = v
		}
		sub.bound[vi.Name] = &val{k: kInt, w: 64, signed: true, ty: types.Typ[types.Int], t: []string{name}}
		g.inQuant++
		p, err := sub.ev(x.Args[3])
		g.inQuant--
		if err != nil {
			return nil, err
		}
		rng := fmt.Sprintf("(and (bvsle %s %s) (bvslt %s %s))", zext(lo, 64), name, name, zext(hi, 64))
		if id.Name == "forall" && sc.coll != nil && !sc.noColl && len(sc.bound) == 0 {
			body := fmt.Sprintf("(=> %s %s)", rng, p.t[0])
			if len(sc.cguards) > 0 {
				body = fmt.Sprintf("(=> %s %s)", and(sc.cguards...), body)
			}
			*sc.coll = append(*sc.coll, instFn{bound: name, body: body})
		}
		if id.Name == "forall" {
			return &val{k: kBool, t: []string{fmt.Sprintf("(forall ((%s (_ BitVec 64))) (=> %s %s))", name, rng, p.t[0])}}, nil
		}
		return &val{k: kBool, t: []string{fmt.Sprintf("(exists ((%s (_ BitVec 64))) (and %s %s))", name, rng, p.t[0])}}, nil
	case "sha":
		as, err := evArgs()
		if err != nil {
			return nil, err
		}
		return sc.fc.shaOf(as[0], sc.h), nil
	case "eqBytes":
		as, err := evArgs()
		if err != nil {
			return nil, err
		}
		return sc.eqBytes(as[0], as[1])
	case "be16", "be32", "be64":
		as, err := evArgs()
		if err != nil {
			return nil, err
		}
		w, _ := strconv.Atoi(id.Name[2:])
		return sc.fc.beRead(as[0], w, sc.h), nil
	case "isErr":
		// isErr(err, ErrX): errors.Is
		as, err := evArgs()
		if err != nil {
			return nil, err
		}
		return sc.fc.errorsIs(as[0], as[1]), nil
	case "loopowned":
		// loopowned(x): the loop-carried reference x still designates the object it designated at loop entry,
		// or an object allocated since loop entry
		if sc.loopHdr == nil || len(x.Args) != 1 {
			return nil, fmt.Errorf("loopowned(x) is only meaningful in a loop invariant")
		}
		vi, ok := x.Args[0].(*ast.Ident)
		if !ok {
			return nil, fmt.Errorf("loopowned expects a loop variable")
		}
		cur, err := sc.lookup(vi.Name)
		if err != nil {
			return nil, err
		}
		ent, ok := sc.fc.loopEntryNames[sc.loopHdr][vi.Name]
		if !ok {
			return nil, fmt.Errorf("%s is not loop-carried", vi.Name)
		}
		return &val{k: kBool, t: []string{fmt.Sprintf("(or (= %s %s) (>= %s %s))", cur.t[0], ent.t[0], cur.t[0], sc.fc.loopEntryAC[sc.loopHdr])}}, nil
	case "loopfresh":
		// loopfresh(e): the reference e is nil or designates an object allocated since loop entry
		if sc.loopHdr == nil || len(x.Args) != 1 {
			return nil, fmt.Errorf("loopfresh(e) is only meaningful in a loop invariant")
		}
		as, err := evArgs()
		if err != nil {
			return nil, err
		}
		r := ""
		switch as[0].k {
		case kPtr, kSlice, kOpaque:
			r = as[0].t[0]
		case kIface:
			r = as[0].t[1]
		default:
			return nil, fmt.Errorf("loopfresh expects a reference")
		}
		return &val{k: kBool, t: []string{fmt.Sprintf("(or (= %s 0) (>= %s %s))", r, r, sc.fc.loopEntryAC[sc.loopHdr])}}, nil
	case "has":
		// has(m, k): key k is present in map m
		as, err := evArgs()
		if err != nil {
			return nil, err
		}
		if len(as) != 2 || as[0].k != kOpaque || as[0].ty == nil {
			return nil, fmt.Errorf("has(m, k) expects a map")
		}
		mt, ok := mapModelled(as[0].ty)
		if !ok || sc.fc == nil {
			return nil, fmt.Errorf("has(m, k): map type %s is not modelled", as[0].ty)
		}
		_, pres, ok := sc.fc.mapGet(sc.h, mt, as[0], as[1], sc.ag())
		if !ok {
			return nil, fmt.Errorf("has(m, k): key kind not modelled")
		}
		return &val{k: kBool, t: []string{pres}}, nil
	case "fresh":
		// fresh(x): x designates an object allocated during the call (not visible to the caller before)
		as, err := evArgs()
		if err != nil {
			return nil, err
		}
		if sc.acOld == "" {
			return nil, fmt.Errorf("fresh(x) is only meaningful in a postcondition")
		}
		r := as[0].t[0]
		if as[0].k == kIface {
			r = as[0].t[1]
		}
		return &val{k: kBool, t: []string{fmt.Sprintf("(or (= %s 0) (>= %s %s))", r, r, sc.acOld)}}, nil
	case "sameobj":
		// sameobj(a, b): the two references designate (parts of) the same allocated object
		as, err := evArgs()
		if err != nil {
			return nil, err
		}
		refOf := func(v *val) (string, bool) {
			switch v.k {
			case kPtr, kSlice, kOpaque:
				return v.t[0], true
			case kIface:
				return v.t[1], true
			}
			return "", false
		}
		ra, ok1 := refOf(as[0])
		rb, ok2 := refOf(as[1])
		if !ok1 || !ok2 {
			return nil, fmt.Errorf("sameobj expects references")
		}
		return &val{k: kBool, t: []string{fmt.Sprintf("(= %s %s)", ra, rb)}}, nil
	case "unchanged":
		// unchanged(p): the object p points to has the same contents as at entry
		as, err := evArgs()
		if err != nil {
			return nil, err
		}
		r := as[0].t[0]
		if as[0].k == kIface {
			r = as[0].t[1]
		}
		var parts []string
		for _, hk := range g.heapKinds() {
			if hk.name != "GL" && sc.h[hk.name] != sc.oldH[hk.name] {
				parts = append(parts, fmt.Sprintf("(= (select %s %s) (select %s %s))", sc.h[hk.name], r, sc.oldH[hk.name], r))
			}
		}
		return &val{k: kBool, t: []string{and(parts...)}}, nil
	}
	// spec function or pure function of the package
	if p := sc.pkg(); p != nil {
		if obj, ok := p.Scope().Lookup(id.Name).(*types.Func); ok {
			fn := g.w.prog.FuncValue(obj)
			if fn != nil {
				as, err := evArgs()
				if err != nil {
					return nil, err
				}
				// adapt untyped literals to parameter types
				for i := range as {
					if as[i].untyped && as[i].k == kInt && i < len(fn.Params) {
						if w, s, ok := intW(fn.Params[i].Type()); ok {
							as[i] = retype(as[i], &val{w: w, signed: s, ty: fn.Params[i].Type()})
						}
					}
				}
				return sc.fc.pureCall(fn, as, sc.h, sc.ag()), nil
			}
		}
	}
	return nil, fmt.Errorf("unknown function %s in spec", id.Name)
}

func (sc *specCtx) eqBytes(a, b *val) (*val, error) {
	g := sc.g
	if a.k == kArr && b.k == kArr {
		return &val{k: kBool, t: []string{fmt.Sprintf("(= %s %s)", a.t[0], b.t[0])}}, nil
	}
	if a.k != kSlice || b.k != kSlice {
		return nil, fmt.Errorf("eqBytes of non-slices")
	}
	q := g.freshName("q_k")
	ra := fmt.Sprintf("(select (select %s %s) (bvadd %s %s))", sc.h["HB"], a.t[0], a.t[1], q)
	rb := fmt.Sprintf("(select (select %s %s) (bvadd %s %s))", sc.h["HB"], b.t[0], b.t[1], q)
	return &val{k: kBool, t: []string{fmt.Sprintf("(and (= %s %s) (forall ((%s (_ BitVec 64))) (=> (and (bvsle %s %s) (bvslt %s %s)) (= %s %s))))",
		a.t[2], b.t[2], q, z64, q, q, a.t[2], ra, rb)}}, nil
}

// ag: the guard under which assumptions created while evaluating a spec term may be asserted; inside a quantifier
// the bound variable would escape, so no assumption is generated there.
func (sc *specCtx) ag() string {
	if len(sc.bound) > 0 {
		return "#skip"
	}
	return sc.guard
}

// assumeSpec evaluates a boolean spec expression as an ASSUMPTION: quantified facts in positive position are
// remembered so that instances can be added at the index terms the code uses later (term-directed instantiation).
func (sc *specCtx) assumeSpec(src string) (string, error) {
	var coll []instFn
	sc.coll = &coll
	f, err := sc.boolExpr(src)
	sc.coll = nil
	if err != nil {
		return "", err
	}
	if sc.fc != nil {
		top := sc.fc.topCtx()
		for _, c := range coll {
			c := c
			top.instFns = append(top.instFns, &c)
		}
	}
	return f, nil
}

func (fc *fnCtx) instantiateAt(idx string) {
	if strings.Contains(idx, "q_") {
		return
	}
	top := fc.topCtx()
	if top.instSeen == nil {
		top.instSeen = map[string]bool{}
	}
	isNew := !top.instSeen["term:"+idx]
	if isNew {
		top.instSeen["term:"+idx] = true
		top.instTerms = append(top.instTerms, idx)
	}
	for _, in := range top.instFns {
		emit := func(outer string, inner []string) {
			key := in.bound + "@" + outer + "@" + strings.Join(inner, ",")
			if top.instSeen[key] || in.used >= 400 {
				return
			}
			top.instSeen[key] = true
			in.used++
			body := strings.ReplaceAll(in.body, in.bound, outer)
			fc.g.assume(expandInnerForall(body, inner))
		}
		if !strings.Contains(in.body, "(forall ((") {
			emit(idx, nil)
			continue
		}
		// nested quantifier: instantiate pairs over the index terms seen so far
		terms := top.instTerms
		if len(terms) > 12 {
			terms = terms[len(terms)-12:]
		}
		emit(idx, terms)
		if isNew {
			for _, o := range terms {
				if o != idx {
					emit(o, []string{idx})
				}
			}
		}
	}
}

// expandInnerForall adds, next to the first nested `(forall ((v (_ BitVec 64))) body)` of f, the instances of body
// at the given terms (the quantified formula itself is kept).
func expandInnerForall(f string, terms []string) string {
	const pfx = "(forall (("
	i := strings.Index(f, pfx)
	if i < 0 || len(terms) == 0 {
		return f
	}
	// variable name
	j := i + len(pfx)
	k := strings.IndexByte(f[j:], ' ')
	if k < 0 {
		return f
	}
	v := f[j : j+k]
	// end of the forall term
	depth := 0
	end := -1
	for p := i; p < len(f); p++ {
		if f[p] == '(' {
			depth++
		} else if f[p] == ')' {
			depth--
			if depth == 0 {
				end = p
				break
			}
		}
	}
	if end < 0 {
		return f
	}
	whole := f[i : end+1]
	// body starts after "(forall ((v (_ BitVec 64))) "
	hd := strings.Index(whole, "))) ")
	if hd < 0 {
		return f
	}
	body := whole[hd+4 : len(whole)-1]
	parts := []string{whole}
	for _, t := range terms {
		parts = append(parts, strings.ReplaceAll(body, v, t))
	}
	return f[:i] + "(and " + strings.Join(parts, " ") + ")" + f[end+1:]
}
