package main

import (
	"os"
	"fmt"
	"go/token"
	"go/types"
	"strconv"
	"strings"

	"golang.org/x/tools/go/ssa"
)

type closureInfo struct {
	fn       *ssa.Function
	bindings []*val
	mk       *ssa.MakeClosure // the instruction that built it (nil when unknown)
}

const maxInlineDepth = 4
const maxInstrs = 30000

// callSite abstracts ssa.Call / ssa.Defer
type callSite struct {
	common *ssa.CallCommon
	args   []*val
	fnv    *val // dynamic callee / interface receiver
	pos    token.Pos
	name   string
	typ    types.Type // result type
}

func (fc *fnCtx) call(x *ssa.Call) {
	cs := &callSite{common: &x.Call, pos: x.Pos(), name: x.Name(), typ: x.Type()}
	for _, a := range x.Call.Args {
		cs.args = append(cs.args, fc.v(a))
	}
	if x.Call.IsInvoke() {
		cs.fnv = fc.v(x.Call.Value)
	} else if _, ok := x.Call.Value.(*ssa.Function); !ok {
		if _, ok := x.Call.Value.(*ssa.Builtin); !ok {
			cs.fnv = fc.v(x.Call.Value)
		}
	}
	res := fc.doCall(cs)
	if res == nil {
		res = &val{k: kTuple}
	}
	fc.set(x, res)
}

func (fc *fnCtx) runDefers() {
	for k := len(fc.defers) - 1; k >= 0; k-- {
		d := fc.defers[k]
		cs := &callSite{common: &d.call.Call, args: d.args, fnv: d.fnv, pos: d.call.Pos(), name: "defer", typ: d.call.Call.Signature().Results()}
		saveR, saveH, saveAC := fc.curR, fc.curH.clone(), fc.curAC
		fc.curR = fc.g.bind(fc.pfx+"R_defer", "Bool", and(saveR, d.guard))
		fc.doCall(cs)
		for _, hk := range fc.g.heapKinds() {
			if fc.curH[hk.name] != saveH[hk.name] {
				fc.curH[hk.name] = fmt.Sprintf("(ite %s %s %s)", d.guard, fc.curH[hk.name], saveH[hk.name])
			}
		}
		if fc.curAC != saveAC {
			fc.curAC = fc.g.bind("ACd", "Int", fmt.Sprintf("(ite %s %s %s)", d.guard, fc.curAC, saveAC))
		}
		fc.curR = saveR
		fc.nameHeaps()
	}
}

func (fc *fnCtx) inChain(callee *ssa.Function) bool {
	for c := fc; c != nil; c = c.parent {
		if c.fn == callee {
			return true
		}
	}
	return false
}

func (fc *fnCtx) doCall(cs *callSite) *val {
	g := fc.g
	cc := cs.common
	if cc.IsInvoke() {
		return fc.invoke(cs)
	}
	switch callee := cc.Value.(type) {
	case *ssa.Builtin:
		return fc.builtin(cs, callee)
	case *ssa.Function:
		return fc.staticCall(cs, callee, nil)
	case *ssa.MakeClosure:
		cl := cs.fnv.closure
		if cl != nil {
			return fc.staticCallMk(cs, cl)
		}
	default:
		if cs.fnv != nil && cs.fnv.closure != nil {
			return fc.staticCallMk(cs, cs.fnv.closure)
		}
		if cl := fc.resolveCellClosure(cc.Value); cl != nil {
			return fc.staticCallMk(cs, cl)
		}
	}
	g.unmodelled["call:dynamic"]++
	return fc.havocCall(cs, true)
}

// staticCallMk: a call of a known function literal; the context it is inlined into remembers the MakeClosure.
func (fc *fnCtx) staticCallMk(cs *callSite, cl *closureInfo) *val {
	save := fc.pendingMk
	fc.pendingMk = cl.mk
	r := fc.staticCall(cs, cl.fn, cl.bindings)
	fc.pendingMk = save
	return r
}

// resolveCellClosure: the called value is loaded from a variable cell (a local of this function, or a captured
// variable of an enclosing function this literal was inlined from) that is assigned exactly once in the whole
// function nest, and that assignment stores a function literal: the callee is that literal (`f := func..; g := func() { f() }`).
func (fc *fnCtx) resolveCellClosure(v ssa.Value) *closureInfo {
	ld, ok := v.(*ssa.UnOp)
	if !ok || ld.Op != token.MUL {
		return nil
	}
	ctx := fc
	cell := ld.X
	for depth := 0; depth < 6; depth++ {
		fv, isFV := cell.(*ssa.FreeVar)
		if !isFV {
			break
		}
		mk := ctx.fromMk
		if mk == nil {
			return nil
		}
		idx := -1
		for i, f := range ctx.fn.FreeVars {
			if f == fv {
				idx = i
			}
		}
		if idx < 0 || idx >= len(mk.Bindings) {
			return nil
		}
		// the context in which the literal was built
		var pc *fnCtx
		for c := ctx.parent; c != nil; c = c.parent {
			if c.fn == mk.Parent() {
				pc = c
				break
			}
		}
		if pc == nil {
			return nil
		}
		cell, ctx = mk.Bindings[idx], pc
	}
	al, ok := cell.(*ssa.Alloc)
	if !ok || al.Parent() != ctx.fn {
		return nil
	}
	var stores []*ssa.Store
	bad := false
	var scan func(addr ssa.Value, depth int)
	scan = func(addr ssa.Value, depth int) {
		if depth > 6 || addr.Referrers() == nil {
			bad = true
			return
		}
		for _, r := range *addr.Referrers() {
			switch x := r.(type) {
			case *ssa.Store:
				if x.Addr == addr {
					stores = append(stores, x)
				} else {
					bad = true // the address itself is stored somewhere: it escapes
				}
			case *ssa.UnOp, *ssa.DebugRef:
			case *ssa.MakeClosure:
				fn := x.Fn.(*ssa.Function)
				for i, b := range x.Bindings {
					if b == addr && i < len(fn.FreeVars) {
						scan(fn.FreeVars[i], depth+1)
					}
				}
			default:
				bad = true
			}
		}
	}
	scan(al, 0)
	if bad || len(stores) != 1 {
		return nil
	}
	mk2, ok := stores[0].Val.(*ssa.MakeClosure)
	if !ok || mk2.Parent() != ctx.fn {
		return nil
	}
	cl := &closureInfo{fn: mk2.Fn.(*ssa.Function), mk: mk2}
	for _, b := range mk2.Bindings {
		bv, ok := ctx.vals[b]
		if !ok {
			return nil
		}
		cl.bindings = append(cl.bindings, bv)
	}
	return cl
}

func (fc *fnCtx) staticCall(cs *callSite, callee *ssa.Function, bindings []*val) *val {
	g := fc.g
	name := callee.String()
	if callee.Origin() != nil {
		name = callee.Origin().String()
	}
	if r, ok := fc.intrinsic(cs, callee, name); ok {
		return r
	}
	if isSpecName(callee.Name()) {
		return fc.pureCall(callee, cs.args, fc.curH, fc.curR)
	}
	if !g.lite {
		if ev := fc.eventKeyOfCall(cs, callee.Name()); ev != "" {
			fc.assertAtCall(ev, cs)
		}
	}
	if g.lite {
		ev := fc.eventKeyOfCall(cs, callee.Name())
		if ev == "" && callee.Signature.Recv() == nil && callee.Parent() == nil && callee.Pkg != nil && fc.topHasOrderEvent(callee.Pkg.Pkg.Name()+"."+callee.Name()) {
			ev = callee.Pkg.Pkg.Name() + "." + callee.Name() // package-level function named by a rule: `store.VerifyInclusion`
		}
		if ev != "" {
			if callee.Blocks == nil || !touchesLocks(callee, 6, map[*ssa.Function]bool{}) || fc.topHasOrderEvent(ev) {
				res := fc.havocCall(cs, false)
				fc.event(ev, res, cs.pos)
				return res
			}
		}
		// typestate level: contracts speak about values and heap contents, which do not exist here; only lock
		// operations matter: inline callees that can reach one, everything else is a havoc of its results
		if callee.Blocks != nil && fc.depth < g.maxDepth+2 && !fc.inChain(callee) && g.instrs < maxInstrs &&
			strings.HasPrefix(pkgPathOf(callee), modulePath) && touchesLocks(callee, 6, map[*ssa.Function]bool{}) {
			return fc.inline(cs, callee, bindings)
		}
		if callee.Blocks != nil && callee.Parent() != nil && len(fc.topOrders()) > 0 && fc.lexicallyInTop() && !fc.inChain(callee) &&
			fc.depth < g.maxDepth+2 && g.instrs < maxInstrs && (g.w.contractOf(callee) == nil || g.w.contractOf(callee).inline) {
			// a function literal of the function under an order contract: its events count, so its body is needed
			for p := callee.Parent(); p != nil; p = p.Parent() {
				if p == fc.topCtx().fn {
					return fc.inline(cs, callee, bindings)
				}
			}
		}
		return fc.havocCall(cs, false)
	}
	if tc := g.w.trustedExt[name]; tc != nil {
		g.trusted["trusted contract: "+name] = true
		return fc.applyContract(cs, callee, tc)
	}
	c := g.w.contractOf(callee)
	if c != nil && !c.inline && bindings == nil {
		return fc.applyContract(cs, callee, c)
	}
	if callee.Blocks != nil && fc.depth < g.maxDepth && !fc.inChain(callee) && g.instrs < maxInstrs && (c == nil || !c.noinline) &&
		(strings.HasPrefix(pkgPathOf(callee), modulePath) || g.w.inlineExternal[name]) {
		if g.lite && !touchesLocks(callee, 6, map[*ssa.Function]bool{}) {
			return fc.havocCall(cs, false)
		}
		return fc.inline(cs, callee, bindings)
	}
	if pureExternal(name) {
		g.trusted["does not write caller-visible memory: "+name] = true
		return fc.havocCall(cs, false)
	}
	g.unmodelled["call:"+name]++
	return fc.havocCall(cs, true)
}

// pureExternal: library functions trusted not to write memory reachable from their arguments.
func pureExternal(name string) bool {
	for _, p := range []string{"strings.", "strconv.", "math.", "math/bits.", "unicode.", "unicode/utf8.", "errors.", "fmt.Sprintf", "fmt.Errorf", "fmt.Sprint",
		"bytes.Equal", "bytes.Compare", "bytes.HasPrefix", "bytes.HasSuffix", "bytes.Index", "bytes.Contains", "time.", "(time.Time).", "(time.Duration).", "path.", "path/filepath.",
		"os.IsNotExist", "os.IsExist", "sort.Search", "(*strings.Builder).String", "(*bytes.Buffer).Bytes", "(*bytes.Buffer).Len", "(*bytes.Buffer).String", "(reflect.Type).", "reflect.TypeOf",
		"(*sync.WaitGroup).", "(*sync/atomic.", "sync/atomic.Load", "(github.com/codenotary/immudb/pkg/logger.Logger).", "crypto/sha256.Sum256", "(hash.Hash).Sum", "encoding/hex.EncodeToString",
		"(*github.com/prometheus", "(github.com/prometheus", "github.com/prometheus"} {
		if strings.HasPrefix(name, p) {
			return true
		}
	}
	return false
}

func (fc *fnCtx) havocCall(cs *callSite, writes bool) *val {
	g := fc.g
	if writes {
		hasPtr := cs.fnv != nil
		for _, a := range cs.args {
			switch a.k {
			case kPtr, kSlice, kIface, kOpaque, kStruct:
				hasPtr = true
			}
		}
		if hasPtr {
			fc.havocHeap("call", "", true)
		}
	}
	var res *val
	if cs.typ != nil {
		if tup, ok := cs.typ.(*types.Tuple); ok && tup.Len() == 0 {
			return &val{k: kTuple}
		}
		res = g.newVal(fc.pfx+cs.name, cs.typ)
		fc.classAssume(res, cs.typ, fc.curR)
		// results may be freshly allocated
		if hasRefs(res) {
			ac := g.declare(g.freshName("AC"), "Int")
			g.assume(fmt.Sprintf("(>= %s %s)", ac, fc.curAC))
			fc.curAC = ac
			fc.wfRefAssume(res, fc.curAC, "")
		}
	}
	return res
}

func hasRefs(v *val) bool {
	switch v.k {
	case kPtr, kSlice, kIface, kOpaque:
		return true
	case kTuple, kStruct:
		for _, e := range v.elems {
			if hasRefs(e) {
				return true
			}
		}
	}
	return false
}

func (fc *fnCtx) builtin(cs *callSite, b *ssa.Builtin) *val {
	g := fc.g
	args := cs.args
	switch b.Name() {
	case "len", "cap":
		a := args[0]
		switch a.k {
		case kSlice:
			i := 2
			if b.Name() == "cap" {
				i = 3
			}
			return &val{k: kInt, w: 64, signed: true, t: []string{a.t[i]}}
		case kOpaque: // map / chan
			n := g.newVal("maplen", types.Typ[types.Int])
			g.assume(fmt.Sprintf("(and (bvsle %s %s) (bvsle %s MAXLEN) (=> (= %s 0) (= %s %s)))", z64, n.t[0], n.t[0], a.t[0], n.t[0], z64))
			return n
		case kArr:
			return &val{k: kInt, w: 64, signed: true, t: []string{bv(64, uint64(a.w/8))}}
		case kPtr:
			if pt, ok := cs.common.Args[0].Type().Underlying().(*types.Pointer); ok {
				if at, ok := pt.Elem().Underlying().(*types.Array); ok {
					return &val{k: kInt, w: 64, signed: true, t: []string{bv(64, uint64(at.Len()))}}
				}
			}
		}
	case "copy":
		d, s := args[0], args[1]
		n := g.bind("copyn", "(_ BitVec 64)", fmt.Sprintf("(ite (bvsle %s %s) %s %s)", d.t[2], s.t[2], d.t[2], s.t[2]))
		if g.lite {
			return &val{k: kInt, w: 64, signed: true, t: []string{n}}
		}
		var et types.Type = types.Typ[types.Uint8]
		if sl, ok := cs.common.Args[0].Type().Underlying().(*types.Slice); ok {
			et = sl.Elem()
		}
		es := slots(et)
		fc.copyRows(kindsOf(et), d, s, n, es)
		return &val{k: kInt, w: 64, signed: true, t: []string{n}}
	case "append":
		return fc.appendBuiltin(cs)
	case "min", "max":
		a, c := args[0], args[1]
		if a.k == kInt {
			op := "bvsle"
			if !a.signed {
				op = "bvule"
			}
			if b.Name() == "max" {
				return &val{k: kInt, w: a.w, signed: a.signed, t: []string{fmt.Sprintf("(ite (%s %s %s) %s %s)", op, a.t[0], c.t[0], c.t[0], a.t[0])}}
			}
			return &val{k: kInt, w: a.w, signed: a.signed, t: []string{fmt.Sprintf("(ite (%s %s %s) %s %s)", op, a.t[0], c.t[0], a.t[0], c.t[0])}}
		}
	case "delete":
		if !fc.mapDelete(cs) && !g.lite {
			if _, ok := mapModelled(cs.common.Args[0].Type()); ok {
				fc.havocHeap("delete", "", true)
			}
		}
		return &val{k: kTuple}
	case "clear":
		if !g.lite {
			if _, ok := mapModelled(cs.common.Args[0].Type()); ok && len(args[0].t) > 0 {
				fc.curH["HIt"] = fmt.Sprintf("(store %s %s ((as const %s) 0))", fc.curH["HIt"], args[0].t[0], rowSort("Int"))
				fc.nameHeaps()
			} else if _, isMap := cs.common.Args[0].Type().Underlying().(*types.Map); !isMap {
				fc.havocHeap("clear", "", true) // clear(slice): contents zeroed; not modelled precisely
			}
		}
		return &val{k: kTuple}
	case "print", "println", "close":
		return &val{k: kTuple}
	case "recover":
		return g.zeroVal(cs.typ)
	case "ssa:wrapnilchk":
		fc.oblige("nil", "wrapnilchk", fmt.Sprintf("(not (= %s 0))", args[0].t[0]), cs.pos)
		return args[0]
	}
	g.unmodelled["builtin:"+b.Name()]++
	return fc.havocCall(cs, true)
}

// copyRows copies n elements (es slots each) from s to d in the given heap kinds (quantifier-free lambda rows).
func (fc *fnCtx) copyRows(kinds []string, d, s *val, n string, es int64) {
	g := fc.g
	cnt := n
	if es != 1 {
		cnt = fmt.Sprintf("(bvmul %s %s)", n, bv(64, uint64(es)))
	}
	k := constOf(n)
	for _, kind := range kinds {
		srt := kindSort(kind)
		if kind == "HB" && es == 1 && k >= 0 && k <= 64 {
			// short constant-length copy: explicit stores (keeps the array theory simple for codecs)
			rn := g.bind("srow", rowSort(srt), fmt.Sprintf("(select %s %s)", fc.curH[kind], s.t[0]))
			row := fmt.Sprintf("(select %s %s)", fc.curH[kind], d.t[0])
			for i := 0; i < k; i++ {
				row = fmt.Sprintf("(store %s %s (select %s %s))", row, addOff(d.t[1], int64(i)), rn, addOff(s.t[1], int64(i)))
			}
			fc.curH[kind] = g.bind(kind, heapSort(srt), fmt.Sprintf("(store %s %s %s)", fc.curH[kind], d.t[0], row))
			continue
		}
		drow := g.bind("drow", rowSort(srt), fmt.Sprintf("(select %s %s)", fc.curH[kind], d.t[0]))
		srow := g.bind("srow", rowSort(srt), fmt.Sprintf("(select %s %s)", fc.curH[kind], s.t[0]))
		nrow := fmt.Sprintf("(lambda ((o (_ BitVec 64))) (ite (and (bvsle %s o) (bvslt o (bvadd %s %s))) (select %s (bvadd %s (bvsub o %s))) (select %s o)))",
			d.t[1], d.t[1], cnt, srow, s.t[1], d.t[1], drow)
		fc.curH[kind] = g.bind(kind, heapSort(srt), fmt.Sprintf("(store %s %s %s)", fc.curH[kind], d.t[0], nrow))
	}
}

// appendBuiltin: append(s, t...) — either in place (fits the capacity) or into a fresh backing array.
func (fc *fnCtx) appendBuiltin(cs *callSite) *val {
	g := fc.g
	s, t := cs.args[0], cs.args[1]
	if t.k != kSlice {
		g.unmodelled["append:nonslice"]++
		return fc.havocCall(cs, true)
	}
	var et types.Type = types.Typ[types.Uint8]
	if sl, ok := cs.common.Args[0].Type().Underlying().(*types.Slice); ok {
		et = sl.Elem()
	}
	es := slots(et)
	newLen := g.bind("applen", "(_ BitVec 64)", fmt.Sprintf("(bvadd %s %s)", s.t[2], t.t[2]))
	g.assume(fmt.Sprintf("(=> %s (bvsle %s MAXLEN))", fc.curR, newLen)) // global length assumption
	fits := g.bind("appfits", "Bool", fmt.Sprintf("(bvsle %s %s)", newLen, s.t[3]))
	if g.lite {
		ref := fc.alloc("app", et)
		return &val{k: kSlice, constLen: -1, t: []string{fmt.Sprintf("(ite %s %s %s)", fits, s.t[0], ref), z64, newLen, newLen}}
	}
	// fresh array case
	before := fc.curH.clone()
	ref := fc.alloc("app", et)
	newCap := g.declare(g.freshName("appcap"), "(_ BitVec 64)")
	g.assume(fmt.Sprintf("(and (bvsle %s %s) (bvsle %s (bvshl MAXLEN #x0000000000000001)))", newLen, newCap, newCap))
	kinds := kindsOf(et)
	// in-place: dst = s[len(s):newLen]; fresh: dst0 = new[0:len(s)] <- s, then new[len(s):] <- t
	dOff := fmt.Sprintf("(bvadd %s %s)", s.t[1], s.t[2])
	if es != 1 {
		dOff = fmt.Sprintf("(bvadd %s (bvmul %s %s))", s.t[1], s.t[2], bv(64, uint64(es)))
	}
	inplaceD := &val{k: kSlice, constLen: t.constLen, t: []string{s.t[0], dOff, t.t[2], t.t[2]}}
	freshH := fc.curH.clone()
	// in place
	fc.curH = before.clone()
	for _, hk := range g.heapKinds() { // keep the allocation's zero rows irrelevant in this branch
		_ = hk
	}
	fc.copyRows(kinds, inplaceD, t, t.t[2], es)
	inH := fc.curH
	// fresh
	fc.curH = freshH
	fd0 := &val{k: kSlice, constLen: s.constLen, t: []string{ref, z64, s.t[2], s.t[2]}}
	fc.copyRows(kinds, fd0, s, s.t[2], es)
	fOff := s.t[2]
	if es != 1 {
		fOff = fmt.Sprintf("(bvmul %s %s)", s.t[2], bv(64, uint64(es)))
	}
	fd1 := &val{k: kSlice, constLen: t.constLen, t: []string{ref, fOff, t.t[2], t.t[2]}}
	fc.copyRows(kinds, fd1, t, t.t[2], es)
	for _, hk := range g.heapKinds() {
		if inH[hk.name] != fc.curH[hk.name] {
			fc.curH[hk.name] = g.bind(hk.name+"_app", heapSort(hk.sort), fmt.Sprintf("(ite %s %s %s)", fits, inH[hk.name], fc.curH[hk.name]))
		}
	}
	out := &val{k: kSlice, constLen: -1, t: []string{
		fmt.Sprintf("(ite %s %s %s)", fits, s.t[0], ref),
		fmt.Sprintf("(ite %s %s %s)", fits, s.t[1], z64),
		newLen,
		fmt.Sprintf("(ite %s %s %s)", fits, s.t[3], newCap)}}
	if s.constLen >= 0 && t.constLen >= 0 {
		out.constLen = s.constLen + t.constLen
	}
	o := fc.named("app", out)
	o.constLen = out.constLen
	return o
}

// ---------------------------------------------------------------------------------------
// intrinsics: trusted contracts of library functions

func (fc *fnCtx) beRead(b *val, w int, h heap) *val {
	n := w / 8
	parts := make([]string, n)
	row := fc.g.bind("row", rowSort("(_ BitVec 8)"), fmt.Sprintf("(select %s %s)", h["HB"], b.t[0]))
	for i := range parts {
		parts[i] = fmt.Sprintf("(select %s %s)", row, addOff(b.t[1], int64(i)))
	}
	return &val{k: kInt, w: w, ty: map[int]types.Type{16: types.Typ[types.Uint16], 32: types.Typ[types.Uint32], 64: types.Typ[types.Uint64]}[w], t: []string{"(concat " + strings.Join(parts, " ") + ")"}}
}

func (fc *fnCtx) shaOf(b *val, h heap) *val {
	g := fc.g
	if b.k == kArr {
		n := b.w / 8
		name := fmt.Sprintf("sha_%d", n)
		g.declFun(name, fmt.Sprintf("((_ BitVec %d)) (_ BitVec 256)", maxi(8*n, 1)))
		return &val{k: kArr, w: 256, t: []string{fmt.Sprintf("(%s %s)", name, b.t[0])}}
	}
	if b.constLen >= 0 && b.constLen <= 128 {
		n := b.constLen
		name := fmt.Sprintf("sha_%d", n)
		g.declFun(name, fmt.Sprintf("((_ BitVec %d)) (_ BitVec 256)", maxi(8*n, 1)))
		arg := bv(1, 0)
		if n > 0 {
			row := g.bind("row", rowSort("(_ BitVec 8)"), fmt.Sprintf("(select %s %s)", h["HB"], b.t[0]))
			parts := make([]string, n)
			for i := range parts {
				parts[i] = fmt.Sprintf("(select %s %s)", row, addOff(b.t[1], int64(i)))
			}
			arg = parts[0]
			if n > 1 {
				arg = "(concat " + strings.Join(parts, " ") + ")"
			}
		}
		return &val{k: kArr, w: 256, t: []string{fmt.Sprintf("(%s %s)", name, arg)}}
	}
	g.declFun("sha_v", "((Array (_ BitVec 64) (_ BitVec 8)) (_ BitVec 64) (_ BitVec 64)) (_ BitVec 256)")
	return &val{k: kArr, w: 256, t: []string{fmt.Sprintf("(sha_v (select %s %s) %s %s)", h["HB"], b.t[0], b.t[1], b.t[2])}}
}

func (fc *fnCtx) errorsIs(e, target *val) *val {
	g := fc.g
	g.declFun("errors_is", "(Int Int (_ BitVec 64) Int Int (_ BitVec 64)) Bool")
	same := fmt.Sprintf("(and (= %s %s) (= %s %s) (= %s %s))", e.t[0], target.t[0], e.t[1], target.t[1], e.t[2], target.t[2])
	t := fmt.Sprintf("(and (not (= %s 0)) (or %s (errors_is %s %s %s %s %s %s)))", e.t[0], same, e.t[0], e.t[1], e.t[2], target.t[0], target.t[1], target.t[2])
	return &val{k: kBool, t: []string{t}}
}

func (fc *fnCtx) intrinsic(cs *callSite, callee *ssa.Function, name string) (*val, bool) {
	g := fc.g
	args := cs.args
	unit := &val{k: kTuple}
	for _, be := range []string{"(encoding/binary.bigEndian).", "(encoding/binary.littleEndian)."} {
		if !strings.HasPrefix(name, be) {
			continue
		}
		little := strings.Contains(be, "little")
		m := strings.TrimPrefix(name, be)
		switch {
		case strings.HasPrefix(m, "Uint"):
			w, _ := strconv.Atoi(strings.TrimPrefix(m, "Uint"))
			b := args[1]
			n := w / 8
			fc.oblige("index", fc.srcOr(cs.pos, "call", fmt.Sprintf("binary.Uint%d(%s)", w, cs.common.Args[1].Name())), fmt.Sprintf("(bvsle %s %s)", bv(64, uint64(n)), b.t[2]), cs.pos, showTerm{"len", b.t[2]})
			g.trusted["encoding/binary fixed-width accessors (contract: len >= width, big/little-endian value)"] = true
			if g.lite {
				return g.newVal(cs.name, cs.typ), true
			}
			parts := make([]string, n)
			row := g.bind("row", rowSort("(_ BitVec 8)"), fmt.Sprintf("(select %s %s)", fc.curH["HB"], b.t[0]))
			for i := range parts {
				j := i
				if little {
					j = n - 1 - i
				}
				parts[i] = fmt.Sprintf("(select %s %s)", row, addOff(b.t[1], int64(j)))
			}
			return fc.named(cs.name, &val{k: kInt, w: w, t: []string{"(concat " + strings.Join(parts, " ") + ")"}}), true
		case strings.HasPrefix(m, "PutUint"):
			w, _ := strconv.Atoi(strings.TrimPrefix(m, "PutUint"))
			b, v := args[1], args[2]
			n := w / 8
			fc.oblige("index", fc.srcOr(cs.pos, "call", fmt.Sprintf("binary.PutUint%d(%s)", w, cs.common.Args[1].Name())), fmt.Sprintf("(bvsle %s %s)", bv(64, uint64(n)), b.t[2]), cs.pos, showTerm{"len", b.t[2]})
			g.trusted["encoding/binary fixed-width accessors (contract: len >= width, big/little-endian value)"] = true
			if g.lite {
				return unit, true
			}
			vt := v.t[0]
			if !isSimple(vt) {
				vt = g.bind("putv", fmt.Sprintf("(_ BitVec %d)", w), vt)
			}
			row := fmt.Sprintf("(select %s %s)", fc.curH["HB"], b.t[0])
			for i := 0; i < n; i++ {
				j := i
				if little {
					j = n - 1 - i
				}
				hi := w - 1 - 8*j
				row = fmt.Sprintf("(store %s %s ((_ extract %d %d) %s))", row, addOff(b.t[1], int64(i)), hi, hi-7, vt)
			}
			fc.curH["HB"] = g.bind("HB", heapSort("(_ BitVec 8)"), fmt.Sprintf("(store %s %s %s)", fc.curH["HB"], b.t[0], row))
			return unit, true
		}
	}
	switch {
	case name == "crypto/sha256.Sum256":
		g.trusted["crypto/sha256.Sum256 as an uninterpreted function of the hashed bytes"] = true
		if g.lite {
			return g.newVal(cs.name, cs.typ), true
		}
		return fc.named(cs.name, fc.shaOf(args[0], fc.curH)), true
	case strings.HasPrefix(name, "(*sync.Mutex).") || strings.HasPrefix(name, "(*sync.RWMutex)."):
		g.trusted["sync.Mutex/RWMutex lock counting (ghost)"] = true
		m := name[strings.LastIndex(name, ".")+1:]
		switch m {
		case "Lock", "Unlock", "RLock", "RUnlock":
			fc.lockOp(args[0], m, cs)
			return unit, true
		case "TryLock", "TryRLock":
			okv := g.newVal("trylock", types.Typ[types.Bool])
			return okv, true
		}
		return unit, true
	case name == "fmt.Errorf" || name == "errors.New":
		ref := fc.alloc("err", nil)
		g.trusted["fmt.Errorf/errors.New return a fresh non-nil error"] = true
		return &val{k: kIface, t: []string{fmt.Sprint(typeTag(types.Typ[types.String])), ref, z64}}, true
	case name == "errors.Is":
		g.trusted["errors.Is: false on nil, reflexive, otherwise uninterpreted"] = true
		return fc.errorsIs(args[0], args[1]), true
	case name == "bytes.Equal":
		g.trusted["bytes.Equal: equal length and equal bytes"] = true
		return fc.bytesEqual(args[0], args[1]), true
	case name == "math.Float64bits" || name == "math.Float32bits":
		return &val{k: kInt, w: args[0].w, t: args[0].t}, true
	case name == "math.Float64frombits" || name == "math.Float32frombits":
		return &val{k: kFloat, w: args[0].w, t: args[0].t}, true
	case callee.Name() == "verifAssume" && isVerifHelper(callee):
		g.assume(fmt.Sprintf("(=> %s %s)", fc.curR, args[0].t[0]))
		return unit, true
	case callee.Name() == "verifAssert" && isVerifHelper(callee):
		label := "assert"
		if c, ok := cs.common.Args[0].(*ssa.Const); ok {
			label = strings.Trim(c.Value.ExactString(), "\"")
		}
		g.oblige(obligation{name: fmt.Sprintf("assert:%s:%s", fc.oblFn(), label), kind: "assert", guard: fc.curR, cond: args[1].t[0], pos: g.w.posString(cs.pos)})
		return unit, true
	case callee.Name() == "verifSha" && isVerifHelper(callee):
		return fc.shaOf(args[0], fc.curH), true
	}
	return nil, false
}

func isVerifHelper(fn *ssa.Function) bool { return strings.HasPrefix(pkgPathOf(fn), modulePath) }

func (fc *fnCtx) bytesEqual(a, b *val) *val {
	g := fc.g
	if g.lite {
		return g.newVal("beq", types.Typ[types.Bool])
	}
	k := a.constLen
	if k < 0 {
		k = b.constLen
	}
	if k >= 0 && k <= 64 {
		parts := []string{fmt.Sprintf("(= %s %s)", a.t[2], b.t[2]), fmt.Sprintf("(= %s %s)", a.t[2], bv(64, uint64(k)))}
		for i := 0; i < k; i++ {
			parts = append(parts, fmt.Sprintf("(= %s %s)", sel(fc.curH["HB"], a.t[0], addOff(a.t[1], int64(i))), sel(fc.curH["HB"], b.t[0], addOff(b.t[1], int64(i)))))
		}
		return &val{k: kBool, t: []string{g.bind("beq", "Bool", and(parts...))}}
	}
	// general: result implies equal length and pointwise equality at a skolem-free witness index function
	e := g.declare(g.freshName("beq"), "Bool")
	wit := g.declare(g.freshName("beqw"), "(_ BitVec 64)")
	ra := func(i string) string { return sel(fc.curH["HB"], a.t[0], fmt.Sprintf("(bvadd %s %s)", a.t[1], i)) }
	rb := func(i string) string { return sel(fc.curH["HB"], b.t[0], fmt.Sprintf("(bvadd %s %s)", b.t[1], i)) }
	q := g.freshName("q_k")
	g.assume(fmt.Sprintf("(=> %s (and (= %s %s) (forall ((%s (_ BitVec 64))) (=> (and (bvsle %s %s) (bvslt %s %s)) (= %s %s)))))", e, a.t[2], b.t[2], q, z64, q, q, a.t[2], ra(q), rb(q)))
	g.assume(fmt.Sprintf("(=> (not %s) (or (not (= %s %s)) (and (bvsle %s %s) (bvslt %s %s) (not (= %s %s)))))", e, a.t[2], b.t[2], z64, wit, wit, a.t[2], ra(wit), rb(wit)))
	return &val{k: kBool, t: []string{e}}
}

// lockOp: ghost counters per mutex location: slot off counts write locks, slot off+1 read locks.
func (fc *fnCtx) lockOp(p *val, m string, cs *callSite) {
	if len(cs.common.Args) > 0 && !lockWanted(cs.common.Args[0]) {
		return
	}
	key := "mutex"
	if len(cs.common.Args) > 0 {
		key = fc.addrText(cs.common.Args[0])
	}
	off := p.t[1]
	delta := "1"
	if m == "RLock" || m == "RUnlock" {
		off = addOff(p.t[1], 1)
		key += "(R)"
	}
	if m == "Unlock" || m == "RUnlock" {
		delta = "(- 1)"
	}
	top := fc.topCtx()
	if _, ok := top.mutexes[key]; !ok {
		top.mutexes[key] = [2]string{p.t[0], off}
	}
	cur := sel(fc.curH["GL"], p.t[0], off)
	fc.curH["GL"] = fc.g.bind("GL", heapSort("Int"), sto(fc.curH["GL"], p.t[0], off, fmt.Sprintf("(+ %s %s)", cur, delta)))
}

var lockFilter []string // lite units: track only mutex fields with these names (empty = all)

func lockWanted(arg ssa.Value) bool {
	if len(lockFilter) == 0 {
		return true
	}
	if fa, ok := arg.(*ssa.FieldAddr); ok {
		st := fa.X.Type().Underlying().(*types.Pointer).Elem().Underlying().(*types.Struct)
		for _, f := range lockFilter {
			if st.Field(fa.Field).Name() == f {
				return true
			}
		}
	}
	return false
}

func touchesLocks(fn *ssa.Function, depth int, seen map[*ssa.Function]bool) bool {
	if seen[fn] || depth == 0 {
		return false
	}
	seen[fn] = true
	for _, af := range fn.AnonFuncs {
		if touchesLocks(af, depth-1, seen) {
			return true
		}
	}
	for _, b := range fn.Blocks {
		for _, in := range b.Instrs {
			var cc *ssa.CallCommon
			switch x := in.(type) {
			case *ssa.Call:
				cc = &x.Call
			case *ssa.Defer:
				cc = &x.Call
			}
			if cc == nil || cc.IsInvoke() {
				continue
			}
			if callee, ok := cc.Value.(*ssa.Function); ok {
				n := callee.String()
				if strings.HasPrefix(n, "(*sync.Mutex).") || strings.HasPrefix(n, "(*sync.RWMutex).") {
					if len(cc.Args) > 0 && lockWanted(cc.Args[0]) {
						return true
					}
					continue
				}
				if callee.Blocks != nil && touchesLocks(callee, depth-1, seen) {
					return true
				}
			}
		}
	}
	return false
}

// ---------------------------------------------------------------------------------------
// inlining

func (fc *fnCtx) inline(cs *callSite, callee *ssa.Function, bindings []*val) *val {
	g := fc.g
	g.inlineSeq++
	ch := g.newFnCtx(callee, fmt.Sprintf("c%d_", g.inlineSeq), fc.depth+1, fc)
	ch.entryReach, ch.entryHeap, ch.entryAC = fc.curR, fc.curH.clone(), fc.curAC
	if fc.pendingMk != nil && fc.pendingMk.Fn == ssa.Value(callee) {
		ch.fromMk = fc.pendingMk
	}
	for i, p := range callee.Params {
		if i < len(cs.args) {
			a := *cs.args[i]
			a.ty = p.Type()
			ch.vals[p] = &a
		}
	}
	for i, fv := range callee.FreeVars {
		if i < len(bindings) {
			ch.vals[fv] = bindings[i]
		} else {
			ch.vals[fv] = g.newVal("fv", fv.Type())
		}
	}
	ch.run()
	return fc.mergeReturns(ch, cs)
}

func (fc *fnCtx) mergeReturns(ch *fnCtx, cs *callSite) *val {
	g := fc.g
	if len(ch.rets) == 0 {
		// the callee never returns (panics on every path): the continuation is unreachable
		fc.curR = "false"
		if cs.typ == nil {
			return &val{k: kTuple}
		}
		return g.zeroVal(cs.typ)
	}
	mk := func(vs []*val) *val {
		if len(vs) == 1 {
			return vs[0]
		}
		return &val{k: kTuple, elems: vs}
	}
	last := ch.rets[len(ch.rets)-1]
	hm := last.h.clone()
	ac := last.ac
	res := mk(last.vals)
	var reaches []string
	reaches = append(reaches, last.reach)
	for i := len(ch.rets) - 2; i >= 0; i-- {
		r := ch.rets[i]
		reaches = append(reaches, r.reach)
		res = fc.ite(r.reach, mk(r.vals), res)
		for k, t := range r.h {
			if hm[k] != t {
				hm[k] = g.bind(k+"_r", heapSort(kindSort(k)), fmt.Sprintf("(ite %s %s %s)", r.reach, t, hm[k]))
			}
		}
		if ac != r.ac {
			ac = g.bind("ACr", "Int", fmt.Sprintf("(ite %s %s %s)", r.reach, r.ac, ac))
		}
	}
	// the continuation is reachable only if some return site is
	if len(reaches) == 1 {
		fc.curR = reaches[0]
	} else {
		fc.curR = g.bind(fc.pfx+"R_ret", "Bool", "(or "+strings.Join(reaches, " ")+")")
	}
	fc.curH, fc.curAC = hm, ac
	fc.nameHeaps()
	if cs.typ != nil {
		if tup, ok := cs.typ.(*types.Tuple); ok && tup.Len() == 0 {
			return &val{k: kTuple}
		}
	}
	out := fc.named(cs.name, res)
	return out
}

// ---------------------------------------------------------------------------------------
// contracts at call sites

func (fc *fnCtx) applyContract(cs *callSite, callee *ssa.Function, c *contract) (out *val) {
	g := fc.g
	key := fnKeyQ(callee)
	if callee.Blocks == nil && strings.HasPrefix(pkgPathOf(callee), modulePath) {
		// the callee's package is loaded from export data only: its contract may mention unexported spec functions
		// that are not visible here; fall back to treating the call as unknown code
		defer func() {
			if r := recover(); r != nil {
				g.unmodelled["contract-not-evaluable-here:"+key]++
				out = fc.havocCall(cs, true)
			}
		}()
	}
	if strings.HasPrefix(pkgPathOf(callee), modulePath) {
		g.assumedCon[key] = true
	}
	env := map[string]*val{}
	{
		// parameter names from the signature (external functions have no ssa Params)
		sig := callee.Signature
		k := 0
		if sig.Recv() != nil && k < len(cs.args) {
			a := *cs.args[k]
			a.ty = sig.Recv().Type()
			env[sig.Recv().Name()] = &a
			env["self"] = &a
			k++
		}
		for i := 0; i < sig.Params().Len() && k < len(cs.args); i, k = i+1, k+1 {
			a := *cs.args[k]
			a.ty = sig.Params().At(i).Type()
			if sig.Variadic() && i == sig.Params().Len()-1 {
				a.ty = sig.Params().At(i).Type()
			}
			env[sig.Params().At(i).Name()] = &a
		}
	}
	pre := &specCtx{fc: fc, g: g, fn: callee, args: env, h: fc.curH, oldH: fc.curH, guard: fc.curR, prove: true}
	for k, r := range c.requires {
		f, err := pre.boolExpr(r.expr)
		if err != nil {
			fatalContract(callee, "requires", r.expr, err)
		}
		lbl := r.label
		if lbl == "" {
			lbl = fmt.Sprint(k + 1)
		}
		if !fc.noObl() {
			g.oblige(obligation{name: fmt.Sprintf("pre:%s:%s@%s", key, lbl, fc.oblFn()), kind: "pre", guard: fc.curR, cond: f, pos: g.w.posString(cs.pos)})
		}
	}
	if c.assumedFrame {
		g.trusted["assumed frame (callee-internal state only): "+key] = true
	}
	oldH := fc.curH.clone()
	oldAC := fc.curAC
	// frame
	if c.pure || (c.hasAssigns && len(c.assigns) == 0) {
		// heap unchanged; the callee may still allocate
	} else if c.hasAssigns {
		keep := fmt.Sprintf("(< r %s)", oldAC)
		nilAssign := false
		for _, a := range c.assigns {
			v, err := pre.term(a)
			if err != nil {
				fatalContract(callee, "assigns", a, err)
			}
			switch v.k {
			case kPtr, kSlice, kOpaque:
				keep = and(keep, fmt.Sprintf("(not (= r %s))", v.t[0]))
			case kIface:
				keep = and(keep, fmt.Sprintf("(not (= r %s))", v.t[1]))
			}
			nilAssign = true
		}
		if nilAssign {
			keep = fmt.Sprintf("(or (= r 0) %s)", keep) // an assigns entry that is nil designates nothing: row 0 is never havocked
		}
		fc.havocHeap("call", keep, true)
	} else {
		hasPtr := false
		for _, a := range cs.args {
			switch a.k {
			case kPtr, kSlice, kIface, kOpaque, kStruct:
				hasPtr = true
			}
		}
		if hasPtr {
			fc.havocHeap("call", "", true)
		}
	}
	var res *val
	var rs []*val
	if cs.typ != nil {
		if tup, ok := cs.typ.(*types.Tuple); ok && tup.Len() == 0 {
			res = &val{k: kTuple}
		}
	}
	if res == nil {
		if c.pure {
			res = fc.pureCall(callee, cs.args, oldH, fc.curR)
		} else {
			res = g.newVal(fc.pfx+cs.name, cs.typ)
			fc.classAssume(res, cs.typ, fc.curR)
		}
		if hasRefs(res) {
			ac := g.declare(g.freshName("AC"), "Int")
			g.assume(fmt.Sprintf("(>= %s %s)", ac, fc.curAC))
			fc.curAC = ac
			fc.wfRefAssume(res, fc.curAC, "")
		}
		if res.k == kTuple {
			rs = res.elems
		} else {
			rs = []*val{res}
		}
	}
	post := &specCtx{fc: fc, g: g, fn: callee, args: env, h: fc.curH, oldH: oldH, results: rs, guard: fc.curR, acOld: oldAC}
	if rs == nil {
		post.results = []*val{}
	}
	post.cguards = []string{fc.curR}
	for _, e := range c.ensures {
		f, err := post.assumeSpec(e.expr)
		if err != nil {
			if strings.Contains(err.Error(), "unknown identifier") {
				// a postcondition about a callee-local (checked in the callee, not usable by callers)
				continue
			}
			fatalContract(callee, "ensures", e.expr, err)
		}
		g.assume(fmt.Sprintf("(=> %s %s)", fc.curR, f))
	}
	return res
}

// assertAtCall: ghost assertions the top contract attaches to the call sites of event ev (value level only).
func (fc *fnCtx) assertAtCall(ev string, cs *callSite) {
	g := fc.g
	if g.lite || !fc.lexicallyInTop() {
		return
	}
	c := g.w.contractOf(fc.topCtx().fn)
	if c == nil {
		return
	}
	for _, a := range c.assertAts {
		if a.event != ev {
			continue
		}
		names := map[string]*val{}
		for i, av := range cs.args {
			names[fmt.Sprintf("arg%d", i)] = av
		}
		sc := fc.specCtxAt(names, fc.curH)
		sc.prove = true
		f, err := sc.boolExpr(a.cl.expr)
		if err != nil {
			fatalContract(fc.topCtx().fn, "assertat", a.cl.expr, err)
		}
		g.oblige(obligation{name: fmt.Sprintf("assertat:%s:%s", fnKeyQ(fc.topCtx().fn), labelOr(a.cl.label, a.cl.expr)), kind: "assert", guard: fc.curR, cond: f, pos: g.w.posString(cs.pos)})
		a.seen = true
	}
}

func (fc *fnCtx) invoke(cs *callSite) *val {
	g := fc.g
	recv := cs.fnv
	m := cs.common.Method
	fc.assertAtCall(fc.addrText(cs.common.Value)+"."+m.Name(), cs)
	if g.lite {
		res := fc.havocCall(cs, false)
		fc.event(fc.addrText(cs.common.Value)+"."+m.Name(), res, cs.pos)
		return res
	}
	trustedIface := false
	if n, ok := cs.common.Value.Type().(*types.Named); ok && n.Obj().Pkg() != nil {
		p := n.Obj().Pkg().Path()
		trustedIface = strings.HasPrefix(p, "github.com/prometheus") || strings.HasSuffix(p, "/pkg/logger")
	}
	if !trustedIface {
		fc.oblige("nil", "invoke:"+fc.srcOr(cs.pos, "call", cs.common.Value.Name()+"."+m.Name()), fmt.Sprintf("(not (= %s 0))", recv.t[0]), cs.pos)
	}
	var c *contract
	var ikey string
	if n, ok := cs.common.Value.Type().(*types.Named); ok && n.Obj().Pkg() != nil {
		ikey = n.Obj().Name() + "." + m.Name()
		c = g.w.contractsFor(n.Obj().Pkg().Path()).ifaces[ikey]
	}
	if c == nil {
		if cs.common.Value.Type().String() == "error" && m.Name() == "Error" {
			return fc.havocCall(cs, false)
		}
		if n, ok := cs.common.Value.Type().(*types.Named); ok && n.Obj().Pkg() != nil {
			p := n.Obj().Pkg().Path()
			if strings.HasPrefix(p, "github.com/prometheus") || strings.HasSuffix(p, "/pkg/logger") {
				g.trusted["metrics and logging interface calls neither panic nor write program state: "+p] = true
				return fc.havocCall(cs, false)
			}
		}
		g.unmodelled["invoke:"+cs.common.Value.Type().String()+"."+m.Name()]++
		return fc.havocCall(cs, true)
	}
	g.assumedCon["iface "+ikey] = true
	if c.assumedFrame {
		g.trusted["assumed frame (callee-internal state only): iface "+ikey] = true
	}
	sig := m.Type().(*types.Signature)
	env := map[string]*val{}
	for i := 0; i < sig.Params().Len() && i < len(cs.args); i++ {
		a := *cs.args[i]
		a.ty = sig.Params().At(i).Type()
		env[sig.Params().At(i).Name()] = &a
	}
	env["self"] = recv
	// a throw-away ssa.Function carrying the method signature for name resolution
	shell := g.w.prog.NewFunction(m.Name(), sig, "iface contract")
	shell.Pkg = nil
	pre := &specCtx{fc: fc, g: g, fn: shell, args: env, h: fc.curH, oldH: fc.curH, guard: fc.curR}
	pre.ifacePkg = m.Pkg()
	for k, r := range c.requires {
		f, err := pre.boolExpr(r.expr)
		if err != nil {
			panic(fmt.Sprintf("iface contract %s requires %q: %v", ikey, r.expr, err))
		}
		lbl := r.label
		if lbl == "" {
			lbl = fmt.Sprint(k + 1)
		}
		if !fc.noObl() {
			g.oblige(obligation{name: fmt.Sprintf("pre:%s:%s@%s", ikey, lbl, fc.oblFn()), kind: "pre", guard: fc.curR, cond: f, pos: g.w.posString(cs.pos)})
		}
	}
	oldH := fc.curH.clone()
	if c.hasAssigns {
		keep := fmt.Sprintf("(< r %s)", fc.curAC)
		for _, a := range c.assigns {
			v, err := pre.term(a)
			if err != nil {
				panic(fmt.Sprintf("iface contract %s assigns %q: %v", ikey, a, err))
			}
			switch v.k {
			case kPtr, kSlice, kOpaque:
				keep = and(keep, fmt.Sprintf("(not (= r %s))", v.t[0]))
			case kIface:
				keep = and(keep, fmt.Sprintf("(not (= r %s))", v.t[1]))
			}
		}
		if len(c.assigns) > 0 {
			keep = fmt.Sprintf("(or (= r 0) %s)", keep) // row 0 (nil) is never havocked by a frame
			fc.havocHeap("call", keep, true)
		}
	} else {
		fc.havocHeap("call", "", true)
	}
	res := g.newVal(fc.pfx+cs.name, cs.typ)
	fc.classAssume(res, cs.typ, fc.curR)
	if hasRefs(res) {
		ac := g.declare(g.freshName("AC"), "Int")
		g.assume(fmt.Sprintf("(>= %s %s)", ac, fc.curAC))
		fc.curAC = ac
		fc.wfRefAssume(res, fc.curAC, "")
	}
	var rs []*val
	if res.k == kTuple {
		rs = res.elems
	} else {
		rs = []*val{res}
	}
	post := &specCtx{fc: fc, g: g, fn: shell, args: env, h: fc.curH, oldH: oldH, results: rs, guard: fc.curR}
	post.ifacePkg = m.Pkg()
	for _, e := range c.ensures {
		f, err := post.boolExpr(e.expr)
		if err != nil {
			panic(fmt.Sprintf("iface contract %s ensures %q: %v", ikey, e.expr, err))
		}
		g.assume(fmt.Sprintf("(=> %s %s)", fc.curR, f))
	}
	return res
}

// ---------------------------------------------------------------------------------------
// pure / spec functions as uninterpreted functions with one-step unfolding

func ufArgs(g *gen, args []*val, h heap) ([]string, []string, bool) {
	var sorts, terms []string
	for _, a := range args {
		switch a.k {
		case kInt, kArr, kFloat:
			sorts = append(sorts, fmt.Sprintf("(_ BitVec %d)", maxi(a.w, 1)))
			terms = append(terms, a.t[0])
		case kBool:
			sorts = append(sorts, "Bool")
			terms = append(terms, a.t[0])
		case kSlice:
			byteish := false
			if a.ty != nil {
				switch u := a.ty.Underlying().(type) {
				case *types.Slice:
					if w, _, ok := intW(u.Elem()); ok && w == 8 {
						byteish = true
					}
					if _, ok := isByteArray(u.Elem()); ok {
						byteish = true
					}
				case *types.Basic:
					byteish = true
				}
			}
			if byteish && !g.lite {
				sorts = append(sorts, rowSort("(_ BitVec 8)"), "(_ BitVec 64)", "(_ BitVec 64)")
				terms = append(terms, fmt.Sprintf("(select %s %s)", h["HB"], a.t[0]), a.t[1], a.t[2])
			} else {
				return nil, nil, false
			}
		case kOpaque:
			if a.rowSort == "" {
				return nil, nil, false
			}
			sorts = append(sorts, a.rowSort)
			terms = append(terms, a.t[0])
		case kStruct, kTuple:
			// pointers nested in a by-value struct argument are passed by identity (assumption: pure functions do
			// not read through them, e.g. time.Time.loc)
			elems := make([]*val, 0, len(a.elems))
			for _, e := range a.elems {
				if e.k == kPtr {
					elems = append(elems, &val{k: kInt, w: 64, t: []string{e.t[1]}}, &val{k: kOpaque, t: []string{e.t[0]}, rowSort: "Int"})
				} else {
					elems = append(elems, e)
				}
			}
			s2, t2, ok := ufArgs(g, elems, h)
			if !ok {
				return nil, nil, false
			}
			sorts = append(sorts, s2...)
			terms = append(terms, t2...)
		default:
			return nil, nil, false
		}
	}
	return sorts, terms, true
}

func resultSort(t types.Type) (string, vkind, int, bool) {
	if w, _, ok := intW(t); ok {
		return fmt.Sprintf("(_ BitVec %d)", w), kInt, w, true
	}
	if n, ok := isByteArray(t); ok {
		return fmt.Sprintf("(_ BitVec %d)", 8*n), kArr, 8 * n, true
	}
	if b, ok := t.Underlying().(*types.Basic); ok && b.Info()&types.IsBoolean != 0 {
		return "Bool", kBool, 0, true
	}
	if w, ok := isFloat(t); ok {
		return fmt.Sprintf("(_ BitVec %d)", w), kFloat, w, true
	}
	return "", 0, 0, false
}

// specRecursive: does the spec function (transitively) call itself?
func specRecursive(fn *ssa.Function) bool {
	seen := map[*ssa.Function]bool{}
	var visit func(f *ssa.Function) bool
	visit = func(f *ssa.Function) bool {
		if seen[f] {
			return false
		}
		seen[f] = true
		for _, b := range f.Blocks {
			for _, in := range b.Instrs {
				if c, ok := in.(*ssa.Call); ok {
					if callee, ok := c.Call.Value.(*ssa.Function); ok {
						if callee == fn {
							return true
						}
						if isSpecName(callee.Name()) && visit(callee) {
							return true
						}
					}
				}
			}
		}
		return false
	}
	return visit(fn)
}

// specBody evaluates the body of a spec function on the given arguments in heap h (no obligations are generated).
func (fc *fnCtx) specBody(fn *ssa.Function, args []*val, h heap) *val {
	g := fc.g
	g.inlineSeq++
	ch := g.newFnCtx(fn, fmt.Sprintf("s%d_", g.inlineSeq), fc.depth+1, fc)
	ch.specMode = true
	ch.entryReach, ch.entryHeap, ch.entryAC = "true", h.clone(), fc.curAC
	for i, p := range fn.Params {
		if i < len(args) {
			a := *args[i]
			a.ty = p.Type()
			ch.vals[p] = &a
		}
	}
	saveR, saveH, saveAC, saveB, saveCells := fc.curR, fc.curH, fc.curAC, fc.curB, fc.cells
	ch.run()
	fc.curR, fc.curH, fc.curAC, fc.curB, fc.cells = saveR, saveH, saveAC, saveB, saveCells
	if len(ch.rets) == 0 {
		return nil
	}
	mk := func(vs []*val) *val {
		if len(vs) == 1 {
			return vs[0]
		}
		return &val{k: kTuple, elems: vs}
	}
	body := mk(ch.rets[len(ch.rets)-1].vals)
	for i := len(ch.rets) - 2; i >= 0; i-- {
		body = fc.ite(ch.rets[i].reach, mk(ch.rets[i].vals), body)
	}
	return body
}

func (fc *fnCtx) pureCall(fn *ssa.Function, args []*val, h heap, guard string) *val {
	g := fc.g
	if isGhostName(fn.Name()) {
		return fc.ghostCall(fn, args)
	}
	if isSpecName(fn.Name()) && fn.Blocks != nil && !g.lite && guard != "#skip" && g.inQuant == 0 && len(g.specStack) < 6 && !g.specStack[fn] {
		if rec, ok := g.w.specRec[fn]; !ok {
			g.w.specRec[fn] = specRecursive(fn)
			rec = g.w.specRec[fn]
			_ = rec
		}
		if !g.w.specRec[fn] {
			// non-recursive spec functions are macros; identical expansions (same arguments, same heap) are shared
			var kb strings.Builder
			kb.WriteString(fn.String())
			for _, a := range args {
				kb.WriteByte('|')
				kb.WriteString(valKey(a))
			}
			for _, hk := range g.heapKinds() {
				kb.WriteByte('|')
				kb.WriteString(h[hk.name])
			}
			key := kb.String()
			if v, ok := g.macroMemo[key]; ok {
				return v
			}
			g.specStack[fn] = true
			body := fc.specBody(fn, args, h)
			delete(g.specStack, fn)
			if body != nil {
				if g.macroMemo == nil {
					g.macroMemo = map[string]*val{}
				}
				g.macroMemo[key] = body
				return body
			}
		}
	}
	{
		// parameter types (external functions have no ssa Params: use the signature)
		var ptys []types.Type
		if fn.Signature.Recv() != nil {
			ptys = append(ptys, fn.Signature.Recv().Type())
		}
		for i := 0; i < fn.Signature.Params().Len(); i++ {
			ptys = append(ptys, fn.Signature.Params().At(i).Type())
		}
		for i := range args {
			if i < len(ptys) && args[i].ty == nil {
				a := *args[i]
				a.ty = ptys[i]
				args[i] = &a
			}
		}
	}
	// `reads p`: the function depends on the pointee object of p only: abstract p by that object's rows
	if c := g.w.contractOf(fn); c != nil && len(c.reads) > 0 && !g.lite {
		var names []string
		if fn.Signature.Recv() != nil {
			names = append(names, fn.Signature.Recv().Name())
		}
		for i := 0; i < fn.Signature.Params().Len(); i++ {
			names = append(names, fn.Signature.Params().At(i).Name())
		}
		g.trusted["assumed read frame of pure function "+fnKeyQ(fn)+": "+strings.Join(c.reads, ", ")] = true
		na := make([]*val, len(args))
		copy(na, args)
		for i, a := range na {
			if i >= len(names) || a.k != kPtr {
				continue
			}
			for _, rn := range c.reads {
				if rn == names[i] {
					ov := &val{k: kStruct, ty: nil}
					for _, hk := range g.heapKinds() {
						if hk.name == "GL" {
							continue
						}
						ov.elems = append(ov.elems, &val{k: kOpaque, t: []string{fmt.Sprintf("(select %s %s)", h[hk.name], a.t[0])}, ty: nil, w: -1, rowSort: rowSort(hk.sort)})
					}
					ov.elems = append(ov.elems, &val{k: kInt, w: 64, t: []string{a.t[1]}})
					na[i] = ov
				}
			}
		}
		args = na
	}
	sorts, terms, ok := ufArgs(g, args, h)
	res := fn.Signature.Results()
	if !ok || res.Len() == 0 {
		// arguments that cannot be abstracted (pointers): function of the whole heap
		for _, hk := range g.heapKinds() {
			if hk.name != "GL" {
				sorts = append([]string{heapSort(hk.sort)}, sorts...)
				terms = append([]string{h[hk.name]}, terms...)
			}
		}
		for _, a := range args {
			switch a.k {
			case kPtr:
				sorts = append(sorts, "Int", "(_ BitVec 64)")
				terms = append(terms, a.t[0], a.t[1])
			case kIface:
				sorts = append(sorts, "Int", "Int", "(_ BitVec 64)")
				terms = append(terms, a.t...)
			case kOpaque:
				sorts = append(sorts, "Int")
				terms = append(terms, a.t[0])
			case kSlice:
				sorts = append(sorts, "Int", "(_ BitVec 64)", "(_ BitVec 64)")
				terms = append(terms, a.t[0], a.t[1], a.t[2])
			case kInt, kArr, kFloat:
				sorts = append(sorts, fmt.Sprintf("(_ BitVec %d)", maxi(a.w, 1)))
				terms = append(terms, a.t[0])
			case kBool:
				sorts = append(sorts, "Bool")
				terms = append(terms, a.t[0])
			}
		}
	}
	base := "uf_" + sanitizeSym(fnKeyQ(fn))
	var outs []*val
	for i := 0; i < res.Len(); i++ {
		srt, k, w, ok := resultSort(res.At(i).Type())
		if bt, isB := res.At(i).Type().Underlying().(*types.Basic); !ok && isB && bt.Info()&types.IsString != 0 {
			// a string result: three uninterpreted components (object, offset, length) of the same arguments
			name := fmt.Sprintf("%s_%d", base, i)
			var ts []string
			for _, c := range []struct{ sfx, srt string }{{"r", "Int"}, {"o", "(_ BitVec 64)"}, {"l", "(_ BitVec 64)"}} {
				g.declFun(name+c.sfx, "("+strings.Join(sorts, " ")+") "+c.srt)
				t := name + c.sfx
				if len(terms) > 0 {
					t = "(" + t + " " + strings.Join(terms, " ") + ")"
				}
				ts = append(ts, t)
			}
			sv := &val{k: kSlice, constLen: -1, ty: res.At(i).Type(), t: []string{ts[0], ts[1], ts[2], ts[2]}}
			if g.inQuant == 0 {
				g.assume(sliceWF(sv))
			}
			outs = append(outs, sv)
			continue
		}
		if !ok {
			g.unmodelled["pure-result:"+res.At(i).Type().String()]++
			outs = append(outs, g.newVal("pure", res.At(i).Type()))
			continue
		}
		name := base
		if res.Len() > 1 {
			name = fmt.Sprintf("%s_%d", base, i)
		}
		g.declFun(name, "("+strings.Join(sorts, " ")+") "+srt)
		t := name
		if len(terms) > 0 {
			t = "(" + name + " " + strings.Join(terms, " ") + ")"
		}
		_, s, _ := intW(res.At(i).Type())
		outs = append(outs, &val{k: k, w: w, signed: s, ty: res.At(i).Type(), t: []string{t}})
	}
	var out *val
	if len(outs) == 1 {
		out = outs[0]
	} else {
		out = &val{k: kTuple, elems: outs}
	}
	// one-step unfolding of spec functions at this term
	if isSpecName(fn.Name()) && fn.Blocks != nil && !g.specStack[fn] && len(g.specStack) < 3 && !g.lite && guard != "#skip" {
		key := base + "(" + strings.Join(terms, " ") + ")"
		if !g.specDefs[key] {
			g.specDefs[key] = true
			g.specStack[fn] = true
			body := fc.specBody(fn, args, h)
			delete(g.specStack, fn)
			if body != nil {
				if eq, err := eqTerm(out, body); err == nil {
					g.assume(eq)
				}
			}
		}
	}
	return out
}

// kindsOf: the heap kinds that hold the scalars of a value of type t.
func kindsOf(t types.Type) []string {
	set := map[string]bool{}
	var walk func(t types.Type)
	walk = func(t types.Type) {
		if w, _, ok := intW(t); ok {
			if w == 8 {
				set["HB"] = true
			} else {
				set["HW"] = true
			}
			return
		}
		if _, ok := isFloat(t); ok {
			set["HW"] = true
			return
		}
		switch u := t.Underlying().(type) {
		case *types.Basic:
			if u.Info()&types.IsBoolean != 0 {
				set["HW"] = true
			} else if u.Info()&types.IsString != 0 {
				set["HSr"], set["HSo"], set["HSl"], set["HSc"] = true, true, true, true
			} else {
				set["HPr"], set["HPo"] = true, true
			}
		case *types.Pointer, *types.Map, *types.Chan, *types.Signature:
			set["HPr"], set["HPo"] = true, true
		case *types.Slice:
			set["HSr"], set["HSo"], set["HSl"], set["HSc"] = true, true, true, true
		case *types.Interface:
			set["HIt"], set["HIr"], set["HIo"] = true, true, true
		case *types.Array:
			walk(u.Elem())
		case *types.Struct:
			for i := 0; i < u.NumFields(); i++ {
				walk(u.Field(i).Type())
			}
		}
	}
	walk(t)
	var out []string
	for _, hk := range heapKindsAll {
		if set[hk.name] {
			out = append(out, hk.name)
		}
	}
	return out
}

// isSpecName: spec functions (pure Go functions of the contract files) are named spec_* / Spec_* (exported, usable
// from other packages); ghost functions ghost_* / Ghost_* are uninterpreted functions of the IDENTITY of their
// reference arguments (never unfolded, independent of heap contents).
func isSpecName(n string) bool {
	return strings.HasPrefix(n, "spec_") || strings.HasPrefix(n, "Spec_") || isGhostName(n)
}

func isGhostName(n string) bool { return strings.HasPrefix(n, "ghost_") || strings.HasPrefix(n, "Ghost_") }

// ghostCall: uninterpreted function over the identities of its arguments.
func (fc *fnCtx) ghostCall(fn *ssa.Function, args []*val) *val {
	g := fc.g
	var sorts, terms []string
	for _, a := range args {
		switch a.k {
		case kInt, kArr, kFloat:
			sorts = append(sorts, fmt.Sprintf("(_ BitVec %d)", maxi(a.w, 1)))
			terms = append(terms, a.t[0])
		case kBool:
			sorts = append(sorts, "Bool")
			terms = append(terms, a.t[0])
		case kPtr:
			sorts = append(sorts, "Int", "(_ BitVec 64)")
			terms = append(terms, a.t[0], a.t[1])
		case kIface:
			sorts = append(sorts, "Int", "(_ BitVec 64)")
			terms = append(terms, a.t[1], a.t[2])
		case kSlice:
			sorts = append(sorts, "Int", "(_ BitVec 64)", "(_ BitVec 64)")
			terms = append(terms, a.t[0], a.t[1], a.t[2])
		case kOpaque:
			sorts = append(sorts, "Int")
			terms = append(terms, a.t[0])
		}
	}
	res := fn.Signature.Results()
	if res.Len() != 1 {
		return g.newVal("ghost", res)
	}
	srt, k, w, ok := resultSort(res.At(0).Type())
	if !ok {
		return g.newVal("ghost", res.At(0).Type())
	}
	name := "gh_" + sanitizeSym(fnKeyQ(fn))
	g.declFun(name, "("+strings.Join(sorts, " ")+") "+srt)
	t := name
	if len(terms) > 0 {
		t = "(" + name + " " + strings.Join(terms, " ") + ")"
	}
	_, sg, _ := intW(res.At(0).Type())
	return &val{k: k, w: w, signed: sg, ty: res.At(0).Type(), t: []string{t}}
}

func valKey(v *val) string {
	if v == nil {
		return "nil"
	}
	if len(v.elems) > 0 {
		var ps []string
		for _, e := range v.elems {
			ps = append(ps, valKey(e))
		}
		return "{" + strings.Join(ps, ",") + "}"
	}
	return strings.Join(v.t, ",")
}

// ---------------------------------------------------------------------------------------
// typestate events (lite units): `order L: A before B` means every execution of event B is preceded by an execution
// of event A that returned without error. Flags live in the ghost array GL at a reserved object.

const evRef = "(- 777)"

func evIndex(ev string) string {
	h := uint64(1469598103934665603)
	for i := 0; i < len(ev); i++ {
		h ^= uint64(ev[i])
		h *= 1099511628211
	}
	return bv(64, h|1)
}

func (fc *fnCtx) eventKeyOfCall(cs *callSite, method string) string {
	if len(cs.common.Args) == 0 || cs.common.Signature().Recv() == nil {
		return ""
	}
	return fc.addrText(cs.common.Args[0]) + "." + method
}

// lexicallyInTop: fc is the function under contract, or a function literal written inside it (inlined at its call or
// at the point where the deferred calls run): its events are events of the function under contract.
func (fc *fnCtx) lexicallyInTop() bool {
	top := fc.topCtx()
	for c := fc; c != top; c = c.parent {
		in := false
		for p := c.fn.Parent(); p != nil; p = p.Parent() {
			if p == top.fn {
				in = true
				break
			}
		}
		if !in {
			return false
		}
	}
	return true
}

func (fc *fnCtx) topOrders() []orderRule {
	top := fc.topCtx()
	if c := fc.g.w.contractOf(top.fn); c != nil {
		return c.orders
	}
	return nil
}

func (fc *fnCtx) topHasOrderEvent(ev string) bool {
	for _, o := range fc.topOrders() {
		if o.after == ev {
			return true
		}
		for _, a := range o.alts() {
			if a == ev {
				return true
			}
		}
	}
	return false
}

// alts: the alternatives of the `before` side (`A | B | else(cond)`): the rule holds when ANY of them happened.
func (o orderRule) alts() []string {
	var r []string
	for _, a := range strings.Split(o.before, " | ") {
		a = strings.TrimSpace(a)
		if strings.HasPrefix(a, "then(") || strings.HasPrefix(a, "else(") {
			a = strings.Join(strings.Fields(a), "") // branch events are named by the condition's source text without blanks
		}
		r = append(r, a)
	}
	return r
}

// happened: the SMT condition "one of the alternatives of o happened" in ghost row gl.
func (o orderRule) happened(gl string) string {
	var cs []string
	for _, a := range o.alts() {
		cs = append(cs, fmt.Sprintf("(= %s 1)", sel(gl, evRef, evIndex(a))))
	}
	if len(cs) == 1 {
		return cs[0]
	}
	return "(or " + strings.Join(cs, " ") + ")"
}

// setFlag records that event ev happened where okc holds.
func (fc *fnCtx) setFlag(ev, okc string) {
	cur := sel(fc.curH["GL"], evRef, evIndex(ev))
	fc.curH["GL"] = fc.g.bind("GL", heapSort("Int"), sto(fc.curH["GL"], evRef, evIndex(ev), fmt.Sprintf("(ite %s 1 %s)", okc, cur)))
}

// event records the execution of ev (res = results of the call, nil for stores) and checks the order rules.
func (fc *fnCtx) event(ev string, res *val, pos token.Pos) {
	g := fc.g
	if !g.lite || !fc.lexicallyInTop() {
		return // rules speak about the events of the function under contract itself (incl. its function literals)
	}
	top := fc.topCtx()
	if os.Getenv("GOVC_EVENTS") != "" {
		fmt.Fprintf(os.Stderr, "event %s at %s\n", ev, g.w.posString(pos))
	}
	for _, o := range fc.topOrders() {
		if o.after == ev {
			g.oblige(obligation{name: fmt.Sprintf("order:%s:%s", fnKeyQ(top.fn), o.label), kind: "order", guard: fc.curR,
				cond: o.happened(fc.curH["GL"]), pos: g.w.posString(pos)})
		}
	}
	for _, o := range fc.topOrders() {
		isAlt := false
		for _, a := range o.alts() {
			isAlt = isAlt || a == ev
		}
		if isAlt {
			okc := "true"
			if res != nil {
				// the last result of type error must be nil
				var find func(v *val) string
				find = func(v *val) string {
					if v.k == kIface && v.ty != nil && isErrorType(v.ty) {
						return fmt.Sprintf("(= %s 0)", v.t[0])
					}
					if v.k == kTuple && len(v.elems) > 0 {
						return find(v.elems[len(v.elems)-1])
					}
					return ""
				}
				if c := find(res); c != "" {
					okc = c
				} else {
					// no error result: a boolean verdict (last result) must be true
					last := res
					if res.k == kTuple && len(res.elems) > 0 {
						last = res.elems[len(res.elems)-1]
					}
					if last.k == kBool {
						okc = last.t[0]
					}
				}
			}
			fc.setFlag(ev, okc)
			break
		}
	}
}
