package main

import (
	"encoding/json"
	"flag"
	"fmt"
	"os"
	"path/filepath"
	"runtime/debug"
	"sort"
	"strings"
	"sync"
	"time"

	"golang.org/x/tools/go/ssa"
)

var verifDir = "/verif"

func parallelism() int {
	n := 14
	if v := os.Getenv("GOVC_PAR"); v != "" {
		fmt.Sscan(v, &n)
	}
	if n < 1 {
		n = 1
	}
	return n
}

func main() {
	if len(os.Args) < 2 {
		fmt.Fprintln(os.Stderr, "usage: govc fn|check|dump ...")
		os.Exit(2)
	}
	if d := os.Getenv("GOVC_REPO"); d != "" {
		repoDir = d
	}
	if d := os.Getenv("GOVC_VERIF"); d != "" {
		verifDir = d
	}
	switch os.Args[1] {
	case "fn":
		cmdFn(os.Args[2:])
	case "check":
		cmdCheck(os.Args[2:])
	case "dump":
		cmdDump(os.Args[2:])
	default:
		fmt.Fprintln(os.Stderr, "unknown command", os.Args[1])
		os.Exit(2)
	}
}

func cmdDump(args []string) {
	fs := flag.NewFlagSet("dump", flag.ExitOnError)
	pkgs := fs.String("pkg", "./embedded/store", "packages (comma separated)")
	fs.Parse(args)
	w, err := loadWorld(strings.Split(*pkgs, ","))
	if err != nil {
		fmt.Fprintln(os.Stderr, err)
		os.Exit(2)
	}
	for _, name := range fs.Args() {
		fn := w.findFunc(name)
		if fn == nil {
			fmt.Println("NOT FOUND", name)
			continue
		}
		fn.WriteTo(os.Stdout)
	}
}

// verifyFunc generates and discharges the obligations of one function.
var genMu sync.Mutex

func verifyFunc(w *world, fn *ssa.Function, lite bool, depth int, exclude []string, locks []string, only []string, opt dischargeOpts) (g *gen, res []result, err error) {
	defer func() {
		if r := recover(); r != nil {
			msg := fmt.Sprint(r)
			if strings.HasPrefix(msg, "contract error in") || strings.HasPrefix(msg, "iface contract") {
				// the contract no longer fits the code (a loop clause names a variable the loop does not have, a clause
				// mentions a removed field, ...): the function's obligations cannot be generated, which is reported as
				// ONE failed obligation, not as an engine failure
				genMu.Lock() // (the deferred unlock below has already run)
				g = newGen(w, fn, lite)
				genMu.Unlock()
				res = []result{{obl: obligation{name: "contract:" + fnKeyQ(fn) + ":not-evaluable", kind: "contract", guard: "true", cond: "false"},
					status: "unknown", solver: "generator", rawOut: msg}}
				err = nil
				return
			}
			err = fmt.Errorf("engine failure on %s: %v\n%s", fnKeyQ(fn), r, debug.Stack())
		}
	}()
	// generation touches shared tables (type tags, global ids, contract cache): one unit at a time; the slow part
	// (discharge) runs concurrently for several units
	genMu.Lock()
	locked := true
	defer func() {
		if locked {
			genMu.Unlock()
		}
	}()
	lockFilter = locks
	// pass 1 discovers loops whose body havocs the whole heap; pass 2 generates the obligations
	var fc *fnCtx
	havocLoops := map[*ssa.BasicBlock]bool{}
	for pass := 0; ; pass++ {
		if pass > 6 {
			panic("loop havoc discovery did not converge")
		}
		g = newGen(w, fn, lite)
		if depth >= 0 {
			g.maxDepth = depth
		}
		g.loopHavocAll = havocLoops
		g.onlyPats = only
		if c := w.contractOf(fn); c != nil && c.absDivMod {
			g.absDivMod = true
		}
		fc = g.newFnCtx(fn, "", 0, nil)
		fc.bindParamsFresh()
		fc.run()
		grew := false
		for h := range g.loopHavocSeen {
			if !havocLoops[h] {
				grew = true
			}
		}
		if !grew {
			break
		}
		nh := map[*ssa.BasicBlock]bool{}
		for h := range havocLoops {
			nh[h] = true
		}
		for h := range g.loopHavocSeen {
			nh[h] = true
		}
		havocLoops = nh
	}
	g.finishTop(fc)
	// vacuity guard: some return site (or, for functions that only panic, the entry) must be reachable under the assumptions
	if len(fc.rets) > 0 {
		var rs []string
		for _, r := range fc.rets {
			rs = append(rs, r.reach)
		}
		cond := rs[0]
		if len(rs) > 1 {
			cond = "(or " + strings.Join(rs, " ") + ")"
		}
		g.oblige(obligation{name: "cover:" + fnKeyQ(fn) + ":some-return-reachable", kind: "cover", guard: "true", cond: cond, cover: true})
	}
	if c := w.contractOf(fn); c != nil && !lite {
		// vacuity guard: an assertat clause whose event never occurs decides nothing
		for _, a := range c.assertAts {
			if !a.seen {
				g.oblige(obligation{name: "assertat:" + fnKeyQ(fn) + ":" + labelOr(a.cl.label, a.cl.expr) + ":event-not-found", kind: "assert", guard: "true", cond: "false"})
			}
			a.seen = false
		}
	}
	if c := w.contractOf(fn); c != nil && lite {
		// vacuity guard of the order rules: a rule whose second event never occurs in the function decides nothing
		for _, o := range c.orders {
			seen := false
			for _, ob := range g.obls {
				if ob.kind == "order" && (ob.name == "order:"+fnKeyQ(fn)+":"+o.label || strings.HasPrefix(ob.name, "order:"+fnKeyQ(fn)+":"+o.label+"#")) {
					seen = true
				}
			}
			if !seen {
				g.oblige(obligation{name: "order:" + fnKeyQ(fn) + ":" + o.label + ":event-not-found", kind: "order", guard: "true", cond: "false"})
			}
		}
	}
	if len(exclude) > 0 || len(only) > 0 {
		var kept []obligation
		for _, o := range g.obls {
			drop := false
			for _, p := range exclude {
				if globMatch(p, o.name) {
					drop = true
				}
			}
			if len(only) > 0 && !o.cover {
				match := false
				for _, p := range only {
					if globMatch(p, o.name) {
						match = true
					}
				}
				if !match {
					continue // outside the scope of this unit (neither claimed nor assumed nor listed)
				}
			}
			if drop {
				// generated but not claimed: not proved, but (like a failed obligation) assumed by the obligations after it;
				// it is listed in the evidence as an unchecked assumption
				g.excluded = append(g.excluded, o.name)
				o.excluded = true
			}
			kept = append(kept, o)
		}
		g.obls = kept
		// vacuity guard: a claim pattern that selects no obligation (a renamed return site, a removed clause) decides
		// nothing and must not pass silently
		for _, p := range only {
			if strings.HasPrefix(p, "contract:") || !strings.Contains(p, "@") {
				continue // kind-level patterns (`pre:DB.*`, `post:*label*`) may legitimately select nothing in a unit; patterns
				// that name a site of the code (`...@return(...)`) must select something
			}
			hit := false
			for _, o := range kept {
				if globMatch(p, o.name) {
					hit = true
					break
				}
			}
			if !hit {
				g.obls = append(g.obls, obligation{name: "contract:" + fnKeyQ(fn) + ":claim-pattern-selects-nothing:" + p, kind: "contract", guard: "true", cond: "false", fn: fnKeyQ(fn), nAsserts: 0})
			}
		}
	}
	genMu.Unlock()
	locked = false
	res = g.discharge(sanitizeSym(fnKeyQ(fn)), opt)
	return g, res, nil
}

func cmdFn(args []string) {
	fs := flag.NewFlagSet("fn", flag.ExitOnError)
	pkgs := fs.String("pkg", "./embedded/store", "packages (comma separated)")
	timeout := fs.Int("timeout", 10, "per query timeout (s)")
	lite := fs.Bool("lite", false, "typestate level (no heap contents)")
	keep := fs.Bool("keep", false, "keep all smt files")
	out := fs.String("out", "/tmp/govc-out", "smt output dir")
	replay := fs.Bool("replay", false, "run replays for failing obligations")
	verbose := fs.Bool("v", false, "print discharged obligations too")
	depth := fs.Int("depth", -1, "inline depth for callees without contract (-1 = default)")
	locks := fs.String("locks", "", "lite: comma separated mutex field names to track")
	onlyF := fs.String("only", "", "comma separated obligation patterns to keep")
	fs.Parse(args)
	if *locks != "" {
		lockFilter = strings.Split(*locks, ",")
	}
	var onlyPats []string
	if *onlyF != "" {
		onlyPats = strings.Split(*onlyF, ",")
	}
	t0 := time.Now()
	w, err := loadWorld(strings.Split(*pkgs, ","))
	if err != nil {
		fmt.Fprintln(os.Stderr, err)
		os.Exit(2)
	}
	fmt.Printf("loaded+built in %.1fs\n", time.Since(t0).Seconds())
	total, failed := 0, 0
	for _, name := range fs.Args() {
		fn := w.findFunc(name)
		if fn == nil {
			fmt.Println("NOT FOUND", name)
			continue
		}
		t1 := time.Now()
		g, res, err := verifyFunc(w, fn, *lite, *depth, nil, lockFilter, onlyPats, dischargeOpts{dir: *out, timeout: *timeout, parallel: parallelism(), keep: *keep})
		if err != nil {
			fmt.Println(err)
			failed++
			continue
		}
		nf := 0
		for _, r := range res {
			total++
			if r.status == "cover-unknown" {
				continue
			}
			if r.status != "unsat" {
				failed++
				nf++
				extra := ""
				for _, st := range r.obl.show {
					if v, ok := r.model[st.term]; ok {
						extra += fmt.Sprintf(" %s=%s", st.label, v)
					}
				}
				fmt.Printf("  FAIL(%s) %-80s %5.2fs %s %s%s\n", r.status, r.obl.name, r.secs, r.solver, r.obl.pos, extra)
				if r.solver == "generator" {
					fmt.Printf("       %s\n", r.rawOut)
				}
				if *replay {
					ro := writeReplay(w, g, r, "dev", filepath.Join(*out, "replays"), true)
					fmt.Printf("      replay %s confirmed=%v\n", ro.path, ro.confirmed)
				}
			} else if *verbose {
				fmt.Printf("  ok   %-80s %5.2fs %s\n", r.obl.name, r.secs, r.solver)
			}
		}
		fmt.Printf("%s: %d obligations, %d failed, %d ssa instrs, %.1fs", name, len(res), nf, g.instrs, time.Since(t1).Seconds())
		if len(g.unmodelled) > 0 {
			fmt.Printf(", unmodelled=%v", g.unmodelled)
		}
		fmt.Println()
	}
	fmt.Printf("TOTAL %d obligations, %d failed\n", total, failed)
	if failed > 0 {
		os.Exit(1)
	}
}

// ---------------------------------------------------------------------------------------
// property checks

type propUnit struct {
	Func    string   `json:"func"`
	Lite    bool     `json:"lite,omitempty"`
	Bounded string   `json:"bounded,omitempty"` // non-empty: this unit is a bounded stand-in; the text states the bound
	Tier    string   `json:"tier,omitempty"`    // "thorough": only in the thorough tier
	Timeout int      `json:"timeout,omitempty"` // per-query CPU seconds for this unit (overrides the property's)
	Depth   *int     `json:"depth,omitempty"`   // inline depth for callees without contract (default 4)
	Locks   []string `json:"locks,omitempty"`   // lite units: mutex field names to track (default all)
	Only    []string `json:"only,omitempty"`    // claim only obligations matching these patterns (the others are dropped, not assumed)
	Exclude []string `json:"exclude,omitempty"` // obligation name patterns (* wildcard) generated but NOT claimed; listed in the evidence
	Why     string   `json:"why_excluded,omitempty"`
}

func globMatch(pat, s string) bool {
	parts := strings.Split(pat, "*")
	if len(parts) == 1 {
		return pat == s
	}
	if !strings.HasPrefix(s, parts[0]) {
		return false
	}
	s = s[len(parts[0]):]
	for i := 1; i < len(parts)-1; i++ {
		j := strings.Index(s, parts[i])
		if j < 0 {
			return false
		}
		s = s[j+len(parts[i]):]
	}
	return strings.HasSuffix(s, parts[len(parts)-1])
}

func (u propUnit) depth() int {
	if u.Depth != nil {
		return *u.Depth
	}
	return -1
}

type propGroup struct {
	Packages []string   `json:"packages"`
	Units    []propUnit `json:"units"`
}

type propConfig struct {
	ID          string      `json:"id"`
	Packages    []string    `json:"packages"`
	Units       []propUnit  `json:"units"`
	Groups      []propGroup `json:"groups"`
	Assumptions []string    `json:"assumptions"`
	NotDecided  []string    `json:"not_decided"`
	Timeout     int         `json:"timeout,omitempty"`
}

type knownFinding struct {
	prop, obligation, what string
}

func loadKnownFindings() []knownFinding {
	b, err := os.ReadFile(filepath.Join(verifDir, "known_findings.txt"))
	if err != nil {
		return nil
	}
	var out []knownFinding
	for _, ln := range strings.Split(string(b), "\n") {
		ln = strings.TrimSpace(ln)
		if !strings.HasPrefix(ln, "finding:") {
			continue
		}
		kf := knownFinding{}
		rest := strings.TrimSpace(strings.TrimPrefix(ln, "finding:"))
		for _, f := range []string{"property=", "obligation="} {
			i := strings.Index(rest, f)
			if i < 0 {
				continue
			}
			v := rest[i+len(f):]
			if j := strings.Index(v, " "); j >= 0 {
				v = v[:j]
			}
			if f == "property=" {
				kf.prop = v
			} else {
				kf.obligation = v
			}
		}
		if i := strings.Index(rest, "what="); i >= 0 {
			kf.what = rest[i+5:]
		}
		out = append(out, kf)
	}
	return out
}

func matchFinding(kfs []knownFinding, prop, obl string) *knownFinding {
	for i := range kfs {
		k := &kfs[i]
		if k.prop != prop {
			continue
		}
		if k.obligation == obl {
			return k
		}
		if strings.HasSuffix(k.obligation, "*") && strings.HasPrefix(obl, strings.TrimSuffix(k.obligation, "*")) {
			return k
		}
	}
	return nil
}

func cmdCheck(args []string) {
	fs := flag.NewFlagSet("check", flag.ExitOnError)
	prop := fs.String("prop", "", "property id")
	tier := fs.String("tier", "quick", "quick|thorough")
	keep := fs.Bool("keep", false, "keep smt files")
	noEvidence := fs.Bool("noevidence", false, "do not write evidence/replays under /verif (runs against scratch trees)")
	fs.Parse(args)
	if t := os.Getenv("VERIF_TIER"); t != "" && *tier == "" {
		*tier = t
	}
	seed := 0
	fmt.Sscan(os.Getenv("VERIF_SEED"), &seed)
	t0 := time.Now()
	b, err := os.ReadFile(filepath.Join(verifDir, "props", *prop+".json"))
	if err != nil {
		fmt.Fprintln(os.Stderr, "no property configuration:", err)
		os.Exit(2)
	}
	var pc propConfig
	if err := json.Unmarshal(b, &pc); err != nil {
		fmt.Fprintln(os.Stderr, "bad property configuration:", err)
		os.Exit(2)
	}
	timeout := 10
	if pc.Timeout > 0 {
		timeout = pc.Timeout
	}
	if *tier == "thorough" {
		timeout *= 6
	}
	groups := pc.Groups
	if len(pc.Units) > 0 {
		groups = append([]propGroup{{pc.Packages, pc.Units}}, groups...)
	}
	loadS := 0.0
	kfs := loadKnownFindings()
	smtDir, _ := os.MkdirTemp("", "govc-"+pc.ID+"-")
	defer os.RemoveAll(smtDir)
	replayDir := filepath.Join(verifDir, "replays", pc.ID)
	if *noEvidence {
		replayDir = filepath.Join(smtDir, "replays")
	} else {
		os.RemoveAll(replayDir)
	}

	type sample struct {
		Name   string  `json:"obligation"`
		Status string  `json:"status"`
		Solver string  `json:"solver"`
		Secs   float64 `json:"secs"`
		Bytes  int     `json:"smt_bytes"`
	}
	var (
		total, discharged, violations, knownN, boundedTotal, boundedDischarged, coverN int
		samples                                                                        []sample
		funcs                                                                          []string
		byBackend                                                                      = map[string]int{}
		solverTime                                                                     float64
		slow                                                                           []slowQ
		unmodelled                                                                     = map[string]map[string]int{}
		trusted                                                                        = map[string]bool{}
		assumedCon                                                                     = map[string]bool{}
		boundedNotes                                                                   []string
		knownLines                                                                     []string
		violationLines                                                                 []string
		engineErrors                                                                   []string
		replaysRun                                                                     int
		excludedObl                                                                    []string
	)
	for _, grp := range groups {
		tl := time.Now()
		w, err := loadWorld(grp.Packages)
		if err != nil {
			fmt.Fprintln(os.Stderr, "cannot load packages:", err)
			fmt.Printf("UNDECIDED property=%s the tree does not load with -tags verif\n", pc.ID)
			os.Exit(2)
		}
		loadS += time.Since(tl).Seconds()
		type unitOut struct {
			g   *gen
			res []result
			err error
			fn  *ssa.Function
		}
		outs := make([]unitOut, len(grp.Units))
		var uwg sync.WaitGroup
		usem := make(chan struct{}, 6)
		for ui, u := range grp.Units {
			if u.Tier == "thorough" && *tier != "thorough" {
				continue
			}
			fn := w.findFunc(u.Func)
			if fn == nil {
				engineErrors = append(engineErrors, "function not found: "+u.Func)
				continue
			}
			outs[ui].fn = fn
			uwg.Add(1)
			go func(ui int, u propUnit, fn *ssa.Function) {
				defer uwg.Done()
				usem <- struct{}{}
				defer func() { <-usem }()
				uto := timeout
				if u.Timeout > 0 {
					uto = u.Timeout
					if *tier == "thorough" {
						uto *= 6
					}
				}
				g, res, err := verifyFunc(w, fn, u.Lite, u.depth(), u.Exclude, u.Locks, u.Only, dischargeOpts{dir: smtDir, timeout: uto, parallel: parallelism(), cross: *tier == "thorough", keep: *keep})
				outs[ui] = unitOut{g, res, err, fn}
			}(ui, u, fn)
		}
		uwg.Wait()
		for ui, u := range grp.Units {
			if outs[ui].fn == nil {
				continue
			}
			funcs = append(funcs, u.Func)
			g, res, err := outs[ui].g, outs[ui].res, outs[ui].err
			if err != nil {
				engineErrors = append(engineErrors, err.Error())
				continue
			}
			if len(g.unmodelled) > 0 {
				unmodelled[u.Func] = g.unmodelled
			}
			for k := range g.trusted {
				trusted[k] = true
			}
			for k := range g.assumedCon {
				assumedCon[k] = true
			}
			if u.Bounded != "" {
				boundedNotes = append(boundedNotes, u.Func+": "+u.Bounded)
			}
			for _, e := range g.excluded {
				excludedObl = append(excludedObl, e+" ("+u.Why+")")
			}
			for _, r := range res {
				solverTime += r.secs
				slow = append(slow, slowQ{r.obl.name, r.secs, r.solver})
				if r.obl.cover {
					coverN++
					if r.status == "vacuous" {
						engineErrors = append(engineErrors, "vacuous assumptions: "+r.obl.name)
					}
					continue
				}
				ok := r.status == "unsat"
				if ok {
					byBackend[r.solver]++
				}
				if len(samples) < 12 || (!ok && len(samples) < 40) {
					samples = append(samples, sample{r.obl.name, map[bool]string{true: "discharged", false: r.status}[ok], r.solver, float64(int(r.secs*1000)) / 1000, r.bytes})
				}
				if !ok {
					if kf := matchFinding(kfs, pc.ID, r.obl.name); kf != nil {
						knownN++
						knownLines = append(knownLines, fmt.Sprintf("KNOWN-FINDING: property=%s %s: %s", pc.ID, r.obl.name, kf.what))
						continue
					}
				}
				if u.Bounded != "" {
					boundedTotal++
					if ok {
						boundedDischarged++
					}
				} else {
					total++
					if ok {
						discharged++
					}
				}
				if !ok {
					violations++
					ro := writeReplay(w, g, r, pc.ID, replayDir, replaysRun < 4)
					if ro.detail != "no model" && ro.detail != "not replayable" {
						replaysRun++
					}
					line := fmt.Sprintf("VIOLATION property=%s replay=%s obligation=%s solver=%s", pc.ID, ro.path, r.obl.name, r.status)
					if !ro.confirmed {
						line += " no-failing-input-found"
					}
					violationLines = append(violationLines, line)
				}
			}
		}
	}
	sort.Strings(knownLines)
	for _, l := range knownLines {
		fmt.Println(l)
	}
	for _, l := range violationLines {
		fmt.Println(l)
	}
	for _, e := range engineErrors {
		fmt.Println("ENGINE-ERROR:", e)
	}
	wall := time.Since(t0).Seconds()
	var tb []string
	for k := range trusted {
		tb = append(tb, k)
	}
	sort.Strings(tb)
	tb = append(tb, "go/packages + go/ssa (x/tools v0.44.0) translation of the current source", "SMT solvers z3 5.1.0 / z3 4.8.12 / cvc5 1.0.3", "govc VC generator (this repository, /verif/govc)")
	var ac []string
	for k := range assumedCon {
		ac = append(ac, k)
	}
	sort.Strings(ac)
	cov := map[string]any{
		"obligations":                           total,
		"discharged":                            discharged,
		"checker_cmd":                           fmt.Sprintf("/verif/check.sh %s %s", pc.ID, *tier),
		"trusted_base":                          tb,
		"samples":                               samples,
		"functions_under_contract":              funcs,
		"by_backend":                            byBackend,
		"solver_time_s":                         float64(int(solverTime*100)) / 100,
		"slowest_queries":                       slowest(slow, 12),
		"load_ssa_s":                            float64(int(loadS*100)) / 100,
		"cover_checks":                          coverN,
		"unmodelled_instructions":               unmodelled,
		"callee_contracts_assumed":              ac,
		"known_finding_obligations":             knownN,
		"bounded_obligations":                   boundedTotal,
		"bounded_discharged":                    boundedDischarged,
		"bounded_standins":                      boundedNotes,
		"not_decided_by_this_check":             pc.NotDecided,
		"obligations_generated_but_not_claimed": excludedObl,
		"engine_errors":                         engineErrors,
		"per_query_timeout_s":                   timeout,
		"integer_semantics":                     "Go fixed-width bit-vectors (wrap-around), no mathematical-integer idealisation",
		"explanation":                           "each obligation is one SMT query generated from go/ssa of /repo's working tree; discharged = unsat",
	}
	assumptions := append([]string{
		"64-bit platform; every slice/string/map length is at most 2^40",
		"references stored in the entry heap are older than objects allocated during the call (heap well-formedness)",
		"data-race freedom outside the modelled lock discipline; effects of other goroutines are not modelled",
		"functions without a contract outside the module, and unmodelled instructions listed under coverage.unmodelled_instructions, are treated as havoc of their results and of memory reachable from their arguments",
	}, pc.Assumptions...)
	ev := map[string]any{
		"property_id": pc.ID, "tier": *tier, "seed": seed, "level": "proof", "coverage": cov, "assumptions": assumptions,
		"wall_s": float64(int(wall*100)) / 100, "violations": violations,
	}
	if !*noEvidence {
		os.MkdirAll(filepath.Join(verifDir, "evidence"), 0o755)
		eb, _ := json.MarshalIndent(ev, "", " ")
		os.WriteFile(filepath.Join(verifDir, "evidence", pc.ID+".json"), eb, 0o644)
	}
	fmt.Printf("property %s (%s): %d obligations, %d discharged, %d known findings, %d bounded (%d discharged), %d functions, %.1fs\n",
		pc.ID, *tier, total, discharged, knownN, boundedTotal, boundedDischarged, len(funcs), wall)
	if total+boundedTotal == 0 {
		fmt.Println("ENGINE-ERROR: no obligations generated at all (vacuous check)")
		os.Exit(2)
	}
	if violations > 0 {
		os.Exit(1)
	}
	if len(engineErrors) > 0 {
		os.Exit(2)
	}
}

type slowQ struct {
	name   string
	secs   float64
	solver string
}

// slowest: the n slowest queries of a run (CPU seconds as measured by wall time of the solver process), for the evidence.
func slowest(qs []slowQ, n int) []string {
	sort.Slice(qs, func(i, j int) bool { return qs[i].secs > qs[j].secs })
	var out []string
	for i := 0; i < len(qs) && i < n; i++ {
		out = append(out, fmt.Sprintf("%.1fs %s %s", qs[i].secs, qs[i].solver, qs[i].name))
	}
	return out
}
