// govc: verification-condition generator for Go (go/ssa -> SMT-LIB 2), see /verif/DESIGN.md section 2.
package main

import (
	"fmt"
	"go/types"
	"sort"
	"strings"

	"golang.org/x/tools/go/ssa"
)

// ---------------------------------------------------------------------------------------
// obligations

type obligation struct {
	excluded bool // generated but not claimed by this unit: never proved, assumed by later obligations
	name         string
	kind         string // safe, pre, post, inv-init, inv-keep, dec, frame, lock, iface, assert, cover
	fn           string // top-level function under verification
	guard        string
	cond         string
	show         []showTerm // terms to evaluate in a counter-model
	cover        bool       // must be satisfiable (vacuity guard)
	pos          string     // file:line for humans (never part of the name)
	goPost       string     // contract expression to re-check natively in a replay
	goPostParams []string   // names its free identifiers use for the parameters, by position
	nAsserts int // number of assertions generated before this obligation: later ones must not be used
}

type showTerm struct {
	label string
	term  string
}

// gen holds one verification unit (one top-level function with everything inlined into it).
type gen struct {
	liteCon map[*contract]*contract
	w             *world
	top           *ssa.Function
	decls         []string
	asserts       []string
	obls          []obligation
	fresh         int
	unmodelled    map[string]int
	trusted       map[string]bool // trusted contracts / intrinsics used
	assumedCon    map[string]bool // callee contracts assumed at call sites
	shaDecl       map[string]bool
	ufDecl        map[string]bool
	occ           map[string]int
	lite          bool // L0: no heap contents
	instrs        int
	inlineSeq     int
	replay        *replayInfo
	specDefs      map[string]bool // spec function unfoldings already emitted (by call term)
	specDepth     int
	strConsts     []string
	closures      map[string]*closureInfo
	specStack     map[*ssa.Function]bool
	absDivMod     bool
	maxDepth      int
	macroMemo     map[string]*val
	onlyPats      []string
	baseHeaps     []baseHeap
	inQuant       int
	excluded      []string
	loopHavocAll  map[*ssa.BasicBlock]bool // loops whose body contains a havoc of the whole heap (from a first pass)
	loopHavocSeen map[*ssa.BasicBlock]bool // discovered in this pass
	entryHB       string
}

func newGen(w *world, top *ssa.Function, lite bool) *gen {
	return &gen{w: w, top: top, lite: lite, unmodelled: map[string]int{}, trusted: map[string]bool{}, assumedCon: map[string]bool{},
		shaDecl: map[string]bool{}, ufDecl: map[string]bool{}, occ: map[string]int{}, specDefs: map[string]bool{}, closures: map[string]*closureInfo{}, specStack: map[*ssa.Function]bool{}, maxDepth: maxInlineDepth, loopHavocAll: map[*ssa.BasicBlock]bool{}, loopHavocSeen: map[*ssa.BasicBlock]bool{}}
}

var heapKindsAll = []struct{ name, sort, zero string }{
	{"HB", "(_ BitVec 8)", "#x00"}, // bytes
	{"HW", "(_ BitVec 64)", z64},   // ints/bools/floats (zero extended)
	{"HPr", "Int", "0"},            // pointer ref (also maps, funcs, chans)
	{"HPo", "(_ BitVec 64)", z64},  // pointer off
	{"HSr", "Int", "0"},            // slice/string ref
	{"HSo", "(_ BitVec 64)", z64},  //   off
	{"HSl", "(_ BitVec 64)", z64},  //   len
	{"HSc", "(_ BitVec 64)", z64},  //   cap
	{"HIt", "Int", "0"},            // interface type tag
	{"HIr", "Int", "0"},            //   ref
	{"HIo", "(_ BitVec 64)", z64},  //   off
	{"GL", "Int", "0"},             // ghost: lock state per mutex location (0 free, 1 W, 2.. R count+1)
}

const z64 = "#x0000000000000000"

func (g *gen) heapKinds() []struct{ name, sort, zero string } {
	if g.lite {
		return heapKindsAll[len(heapKindsAll)-1:]
	}
	return heapKindsAll
}

func heapSort(elem string) string { return "(Array Int (Array (_ BitVec 64) " + elem + "))" }
func rowSort(elem string) string  { return "(Array (_ BitVec 64) " + elem + ")" }

func kindSort(kind string) string {
	for _, k := range heapKindsAll {
		if k.name == kind {
			return k.sort
		}
	}
	panic("kind " + kind)
}

func prelude() string {
	var sb strings.Builder
	sb.WriteString("(set-option :produce-models true)\n(set-logic ALL)\n")
	sb.WriteString("(define-fun MAXLEN () (_ BitVec 64) #x0000010000000000)\n")
	return sb.String()
}

func sanitizeSym(s string) string {
	var sb strings.Builder
	for _, r := range s {
		if r >= 'a' && r <= 'z' || r >= 'A' && r <= 'Z' || r >= '0' && r <= '9' || r == '_' {
			sb.WriteRune(r)
		} else {
			sb.WriteByte('_')
		}
	}
	if sb.Len() == 0 || (sb.String()[0] >= '0' && sb.String()[0] <= '9') {
		return "v" + sb.String()
	}
	return sb.String()
}

func (g *gen) freshName(base string) string {
	g.fresh++
	return fmt.Sprintf("%s!%d", sanitizeSym(base), g.fresh)
}

func (g *gen) declare(name, sort string) string {
	g.decls = append(g.decls, fmt.Sprintf("(declare-const %s %s)", name, sort))
	return name
}

func (g *gen) declFun(name, sig string) {
	if !g.ufDecl[name] {
		g.ufDecl[name] = true
		g.decls = append(g.decls, fmt.Sprintf("(declare-fun %s %s)", name, sig))
	}
}

// bind declares a fresh constant equal to term (keeps terms small; the unit of slicing).
func (g *gen) bind(base, sort, term string) string {
	if g.inQuant > 0 {
		return term // under a quantifier the term may mention the bound variable: no top-level definition
	}
	n := g.declare(g.freshName(base), sort)
	g.asserts = append(g.asserts, fmt.Sprintf("(assert (= %s %s))", n, term))
	return n
}

func (g *gen) assume(f string) {
	if strings.Contains(f, "#skip") {
		// "#skip" is the guard of evaluation contexts that must not generate side assumptions (under quantifiers): a side
		// assumption that reaches this point is dropped (sound: fewer assumptions) and counted, never written into a query
		g.unmodelled["assumption-under-skip-guard"]++
		return
	}
	g.asserts = append(g.asserts, "(assert "+f+")")
}

func (g *gen) oblige(o obligation) {
	g.occ[o.name]++
	if n := g.occ[o.name]; n > 1 {
		o.name = fmt.Sprintf("%s#%d", o.name, n)
	}
	o.fn = fnKeyQ(g.top)
	o.nAsserts = len(g.asserts)
	g.obls = append(g.obls, o)
}

type heap map[string]string // kind -> term

func (g *gen) freshHeap(tag string) heap {
	h := heap{}
	for _, k := range g.heapKinds() {
		h[k.name] = g.declare(g.freshName(k.name+"_"+tag), heapSort(k.sort))
	}
	return h
}

func (h heap) clone() heap {
	n := heap{}
	for k, v := range h {
		n[k] = v
	}
	return n
}

// ---------------------------------------------------------------------------------------
// values

type vkind int

const (
	kInt vkind = iota
	kBool
	kPtr    // t: ref, off
	kSlice  // t: ref, off, len, cap   (strings too, cap == len)
	kIface  // t: tag, ref, off
	kArr    // t: bitvector of w bits (byte arrays up to 128 bytes)
	kTuple  // elems
	kStruct // elems per field
	kOpaque // t: Int id (maps, chans, funcs, unmodelled)
	kFloat  // t: bit pattern, w = 32/64
)

type val struct {
	k        vkind
	w        int
	signed   bool
	t        []string
	elems    []*val
	constLen int // slices: statically known length or -1
	ty       types.Type
	untyped  bool // spec literal: adopts the width of the other operand
	closure  *closureInfo
	rowSort  string // kOpaque carrying a heap row (pure-call abstraction of a pointee object)
	arrRow   string // kArr loaded from the heap: the bound row term and the offset term (provenance for frame facts)
	arrOff   string
}

func bv(w int, n uint64) string {
	if w < 64 {
		n &= (uint64(1) << uint(w)) - 1
	}
	if w%4 == 0 && w <= 64 {
		return fmt.Sprintf("#x%0*x", w/4, n)
	}
	return fmt.Sprintf("(_ bv%d %d)", n, w)
}

func bvZero(w int) string {
	if w <= 64 {
		return bv(w, 0)
	}
	return fmt.Sprintf("(_ bv0 %d)", w)
}

func intW(t types.Type) (int, bool, bool) {
	b, ok := t.Underlying().(*types.Basic)
	if !ok {
		return 0, false, false
	}
	switch b.Kind() {
	case types.Int8:
		return 8, true, true
	case types.Uint8:
		return 8, false, true
	case types.Int16:
		return 16, true, true
	case types.Uint16:
		return 16, false, true
	case types.Int32, types.UntypedRune:
		return 32, true, true
	case types.Uint32:
		return 32, false, true
	case types.Int, types.Int64, types.UntypedInt:
		return 64, true, true
	case types.Uint, types.Uint64, types.Uintptr:
		return 64, false, true
	}
	return 0, false, false
}

func isByteArray(t types.Type) (int, bool) {
	a, ok := t.Underlying().(*types.Array)
	if !ok {
		return 0, false
	}
	if w, _, ok := intW(a.Elem()); ok && w == 8 && a.Len() <= 128 {
		return int(a.Len()), true
	}
	return 0, false
}

func isString(t types.Type) bool {
	b, ok := t.Underlying().(*types.Basic)
	return ok && b.Info()&types.IsString != 0
}

func isFloat(t types.Type) (int, bool) {
	b, ok := t.Underlying().(*types.Basic)
	if !ok {
		return 0, false
	}
	switch b.Kind() {
	case types.Float64, types.UntypedFloat:
		return 64, true
	case types.Float32:
		return 32, true
	}
	return 0, false
}

// slots returns the number of heap slots a value of type t occupies.
func slots(t types.Type) int64 {
	switch u := t.Underlying().(type) {
	case *types.Array:
		return u.Len() * slots(u.Elem())
	case *types.Struct:
		var n int64
		for i := 0; i < u.NumFields(); i++ {
			n += slots(u.Field(i).Type())
		}
		if n == 0 {
			return 1
		}
		return n
	}
	return 1
}

func fieldOff(st *types.Struct, idx int) int64 {
	var n int64
	for i := 0; i < idx; i++ {
		n += slots(st.Field(i).Type())
	}
	return n
}

func sortsOf(k vkind) []string {
	switch k {
	case kBool:
		return []string{"Bool"}
	case kPtr:
		return []string{"Int", "(_ BitVec 64)"}
	case kSlice:
		return []string{"Int", "(_ BitVec 64)", "(_ BitVec 64)", "(_ BitVec 64)"}
	case kIface:
		return []string{"Int", "Int", "(_ BitVec 64)"}
	case kOpaque:
		return []string{"Int"}
	}
	return nil
}

func sliceWF(v *val) string {
	return fmt.Sprintf("(and (bvsle %s %s) (bvsle %s %s) (bvsle %s MAXLEN) (bvsle %s %s) (bvslt %s MAXLEN) (=> (= %s 0) (= %s %s)))",
		z64, v.t[2], v.t[2], v.t[3], v.t[3], z64, v.t[1], v.t[1], v.t[0], v.t[3], z64)
}

// newVal declares fresh SMT constants for a value of type t (havoc).
func (g *gen) newVal(base string, t types.Type) *val {
	if t == nil {
		return &val{k: kTuple}
	}
	if w, s, ok := intW(t); ok {
		return &val{k: kInt, w: w, signed: s, ty: t, t: []string{g.declare(g.freshName(base), fmt.Sprintf("(_ BitVec %d)", w))}}
	}
	if w, ok := isFloat(t); ok {
		return &val{k: kFloat, w: w, ty: t, t: []string{g.declare(g.freshName(base), fmt.Sprintf("(_ BitVec %d)", w))}}
	}
	switch u := t.Underlying().(type) {
	case *types.Basic:
		if u.Info()&types.IsBoolean != 0 {
			return &val{k: kBool, ty: t, t: []string{g.declare(g.freshName(base), "Bool")}}
		}
		if u.Info()&types.IsString != 0 {
			v := g.newSlice(base, t)
			g.assume(fmt.Sprintf("(= %s %s)", v.t[2], v.t[3]))
			return v
		}
		if u.Kind() == types.UnsafePointer {
			return &val{k: kPtr, ty: t, t: []string{g.declare(g.freshName(base+"_r"), "Int"), g.declare(g.freshName(base+"_o"), "(_ BitVec 64)")}}
		}
	case *types.Pointer:
		return &val{k: kPtr, ty: t, t: []string{g.declare(g.freshName(base+"_r"), "Int"), g.declare(g.freshName(base+"_o"), "(_ BitVec 64)")}}
	case *types.Slice:
		return g.newSlice(base, t)
	case *types.Interface:
		return &val{k: kIface, ty: t, t: []string{g.declare(g.freshName(base+"_t"), "Int"), g.declare(g.freshName(base+"_r"), "Int"), g.declare(g.freshName(base+"_o"), "(_ BitVec 64)")}}
	case *types.Array:
		if n, ok := isByteArray(t); ok {
			return &val{k: kArr, w: 8 * n, ty: t, t: []string{g.declare(g.freshName(base), fmt.Sprintf("(_ BitVec %d)", maxi(8*n, 1)))}}
		}
	case *types.Struct:
		v := &val{k: kStruct, ty: t}
		for i := 0; i < u.NumFields(); i++ {
			v.elems = append(v.elems, g.newVal(base+"_"+u.Field(i).Name(), u.Field(i).Type()))
		}
		return v
	case *types.Tuple:
		v := &val{k: kTuple, ty: t}
		for i := 0; i < u.Len(); i++ {
			v.elems = append(v.elems, g.newVal(fmt.Sprintf("%s_%d", base, i), u.At(i).Type()))
		}
		return v
	case *types.Map, *types.Chan, *types.Signature:
		return &val{k: kOpaque, ty: t, t: []string{g.declare(g.freshName(base+"_q"), "Int")}}
	}
	g.unmodelled["type:"+t.String()]++
	return &val{k: kOpaque, ty: t, t: []string{g.declare(g.freshName(base+"_q"), "Int")}}
}

func (g *gen) newSlice(base string, t types.Type) *val {
	v := &val{k: kSlice, constLen: -1, ty: t, t: []string{
		g.declare(g.freshName(base+"_r"), "Int"), g.declare(g.freshName(base+"_o"), "(_ BitVec 64)"),
		g.declare(g.freshName(base+"_l"), "(_ BitVec 64)"), g.declare(g.freshName(base+"_c"), "(_ BitVec 64)")}}
	g.assume(sliceWF(v))
	return v
}

// zeroVal is the zero value of type t.
func (g *gen) zeroVal(t types.Type) *val {
	if w, s, ok := intW(t); ok {
		return &val{k: kInt, w: w, signed: s, ty: t, t: []string{bv(w, 0)}}
	}
	if w, ok := isFloat(t); ok {
		return &val{k: kFloat, w: w, ty: t, t: []string{bv(w, 0)}}
	}
	switch u := t.Underlying().(type) {
	case *types.Basic:
		if u.Info()&types.IsBoolean != 0 {
			return &val{k: kBool, ty: t, t: []string{"false"}}
		}
		if u.Info()&types.IsString != 0 {
			return &val{k: kSlice, constLen: 0, ty: t, t: []string{"0", z64, z64, z64}}
		}
		return &val{k: kPtr, ty: t, t: []string{"0", z64}}
	case *types.Pointer:
		return &val{k: kPtr, ty: t, t: []string{"0", z64}}
	case *types.Slice:
		return &val{k: kSlice, constLen: 0, ty: t, t: []string{"0", z64, z64, z64}}
	case *types.Interface:
		return &val{k: kIface, ty: t, t: []string{"0", "0", z64}}
	case *types.Array:
		if n, ok := isByteArray(t); ok {
			return &val{k: kArr, w: 8 * n, ty: t, t: []string{bvZero(maxi(8*n, 1))}}
		}
	case *types.Struct:
		v := &val{k: kStruct, ty: t}
		for i := 0; i < u.NumFields(); i++ {
			v.elems = append(v.elems, g.zeroVal(u.Field(i).Type()))
		}
		return v
	case *types.Tuple:
		v := &val{k: kTuple, ty: t}
		for i := 0; i < u.Len(); i++ {
			v.elems = append(v.elems, g.zeroVal(u.At(i).Type()))
		}
		return v
	}
	return &val{k: kOpaque, ty: t, t: []string{"0"}}
}

func maxi(a, b int) int {
	if a > b {
		return a
	}
	return b
}

func sortedKeys[V any](m map[string]V) []string {
	var ks []string
	for k := range m {
		ks = append(ks, k)
	}
	sort.Strings(ks)
	return ks
}

func sel(h, ref, off string) string { return fmt.Sprintf("(select (select %s %s) %s)", h, ref, off) }
func sto(h, ref, off, v string) string {
	return fmt.Sprintf("(store %s %s (store (select %s %s) %s %s))", h, ref, h, ref, off, v)
}
func addOff(off string, n int64) string {
	if n == 0 {
		return off
	}
	return fmt.Sprintf("(bvadd %s %s)", off, bv(64, uint64(n)))
}

func zext(v *val, to int) string {
	if v.w == to {
		return v.t[0]
	}
	if v.w > to {
		return fmt.Sprintf("((_ extract %d 0) %s)", to-1, v.t[0])
	}
	if v.signed {
		return fmt.Sprintf("((_ sign_extend %d) %s)", to-v.w, v.t[0])
	}
	return fmt.Sprintf("((_ zero_extend %d) %s)", to-v.w, v.t[0])
}

func and(parts ...string) string {
	var ps []string
	for _, p := range parts {
		if p != "" && p != "true" {
			ps = append(ps, p)
		}
	}
	switch len(ps) {
	case 0:
		return "true"
	case 1:
		return ps[0]
	}
	return "(and " + strings.Join(ps, " ") + ")"
}

// divmodAbs: division/modulo by a non-constant as uninterpreted functions constrained by instance axioms that are
// theorems of bvudiv/bvurem (unsigned) resp. of bvsdiv/bvsrem for a non-negative dividend and positive divisor.
func (g *gen) divmodAbs(div, signed bool, w int, a, b string) string {
	srt := fmt.Sprintf("(_ BitVec %d)", w)
	p := "u"
	if signed {
		p = "s"
	}
	dn, mn := fmt.Sprintf("%sdiv%d", p, w), fmt.Sprintf("%smod%d", p, w)
	g.declFun(dn, fmt.Sprintf("(%s %s) %s", srt, srt, srt))
	g.declFun(mn, fmt.Sprintf("(%s %s) %s", srt, srt, srt))
	d := fmt.Sprintf("(%s %s %s)", dn, a, b)
	m := fmt.Sprintf("(%s %s %s)", mn, a, b)
	key := "divmod:" + d
	if !g.specDefs[key] {
		g.specDefs[key] = true
		lt, le := "bvult", "bvule"
		guard := fmt.Sprintf("(not (= %s %s))", b, bv(w, 0))
		if signed {
			lt, le = "bvslt", "bvsle"
			guard = fmt.Sprintf("(and (bvsle %s %s) (bvslt %s %s))", bv(w, 0), a, bv(w, 0), b)
		}
		g.assume(fmt.Sprintf("(=> %s (and (%s %s %s) (%s %s %s) (%s %s %s) (%s %s %s) (=> (%s %s %s) (and (= %s %s) (= %s %s))) (=> (and (%s %s %s) (%s (bvsub %s %s) %s)) (and (= %s (bvsub %s %s)) (= %s %s)))))",
			guard, le, bv(w, 0), m, lt, m, b, le, bv(w, 0), d, le, d, a,
			lt, a, b, m, a, d, bv(w, 0),
			le, b, a, lt, a, b, b, m, a, b, d, bv(w, 1)))
	}
	if div {
		return d
	}
	return m
}

// Heap well-formedness ("every reference stored in a heap is older than the allocation counter that bounds it") is a
// universally quantified property of every BASE heap (the entry heap and each unconstrained heap introduced by a havoc).
// The quantified axioms made z3 diverge on small queries, so the instances are generated at the addresses the
// program actually loads references from (term-directed instantiation); each instance is a consequence of the axiom.
type baseHeap struct {
	refs map[string]string // HPr/HSr/HIr terms
	ac   string
}

func (g *gen) registerBaseHeap(h heap, ac string) {
	if g.lite {
		return
	}
	g.baseHeaps = append(g.baseHeaps, baseHeap{map[string]string{"HPr": h["HPr"], "HSr": h["HSr"], "HIr": h["HIr"]}, ac})
}

func (g *gen) wfInstances(kind, ref, off, guard string) {
	if g.lite || guard == "#skip" || g.inQuant > 0 {
		return
	}
	bs := g.baseHeaps
	n := 0
	for i := len(bs) - 1; i >= 0; i-- {
		if n >= 10 && i != 0 {
			continue // keep the entry heap and the ten most recent havoc heaps
		}
		n++
		key := "wf:" + bs[i].refs[kind] + "|" + ref + "|" + off
		if g.specDefs[key] {
			continue
		}
		g.specDefs[key] = true
		g.assume(fmt.Sprintf("(< %s %s)", sel(bs[i].refs[kind], ref, off), bs[i].ac))
	}
}

// topContract: the contract of the function under check as this unit sees it. A typestate (lite) unit has no heap
// contents, so the value clauses (requires, ensures, invariants, measures, frames) do not exist for it: only the order
// rules and flags remain. The value clauses are decided by the non-lite unit of the same function, if one is registered.
func (g *gen) topContract(fn *ssa.Function) *contract {
	c := g.w.contractOf(fn)
	if c == nil || !g.lite {
		return c
	}
	if g.liteCon == nil {
		g.liteCon = map[*contract]*contract{}
	}
	if s, ok := g.liteCon[c]; ok {
		return s
	}
	s := &contract{key: c.key, orders: c.orders, inline: c.inline, noinline: c.noinline, line: c.line,
		invariants: map[int][]clause{}, decreases: map[int]string{}, loopAssign: map[int][]string{}}
	g.liteCon[c] = s
	return s
}
