package main

import (
	"fmt"
	"go/ast"
	"go/parser"
	"go/token"
	"go/types"
	"os"
	"os/exec"
	"path/filepath"
	"regexp"
	"sort"
	"strconv"
	"strings"

	"golang.org/x/tools/go/packages"
	"golang.org/x/tools/go/ssa"
	"golang.org/x/tools/go/ssa/ssautil"
)

const modulePath = "github.com/codenotary/immudb"

var repoDir = "/repo"

// world is everything loaded for one run.
type world struct {
	prog           *ssa.Program
	pkgs           []*packages.Package
	spkgs          []*ssa.Package
	fset           *token.FileSet
	contracts      map[string]*contractFile // by package path
	files          map[string]*ast.File     // by filename (for source text of obligations)
	pkgOfFile      map[string]*packages.Package
	inlineExternal map[string]bool
	trustedExt     map[string]*contract
	classes        *typeClasses
	specRec        map[*ssa.Function]bool
}

// withContractDeps adds, to the requested packages, every package of the module they depend on that carries a
// contract file: those must be loaded from source so that their spec functions and contracts can be evaluated.
func withContractDeps(patterns []string) []string {
	args := append([]string{"list", "-deps", "-tags", "verif", "-f", "{{.ImportPath}} {{.Dir}}"}, patterns...)
	cmd := exec.Command("go", args...)
	cmd.Dir = repoDir
	out, err := cmd.Output()
	if err != nil {
		return patterns
	}
	have := map[string]bool{}
	for _, p := range patterns {
		have[p] = true
	}
	res := append([]string{}, patterns...)
	for _, ln := range strings.Split(string(out), "\n") {
		f := strings.Fields(ln)
		if len(f) != 2 || !strings.HasPrefix(f[0], modulePath) {
			continue
		}
		if m, _ := filepath.Glob(filepath.Join(f[1], "zz_verif_contracts*.go")); len(m) == 0 {
			continue
		}
		rel := "./" + strings.TrimPrefix(strings.TrimPrefix(f[0], modulePath), "/")
		if !have[rel] {
			have[rel] = true
			res = append(res, rel)
		}
	}
	return res
}

func loadWorld(patterns []string) (*world, error) {
	patterns = withContractDeps(patterns)
	cfg := &packages.Config{Mode: packages.LoadSyntax, Dir: repoDir, BuildFlags: []string{"-tags=verif"}}
	for _, p := range patterns {
		if strings.HasSuffix(p, "pkg/auth") || strings.HasSuffix(p, "pkg/server") {
			src, err := genAuthTables()
			if err != nil {
				return nil, fmt.Errorf("cannot extract the permission tables: %v", err)
			}
			cfg.Overlay = map[string][]byte{filepath.Join(repoDir, "pkg/auth/zz_verif_tables_generated.go"): []byte(src)}
			break
		}
	}
	pkgs, err := packages.Load(cfg, patterns...)
	if err != nil {
		return nil, err
	}
	nerr := 0
	for _, p := range pkgs {
		for _, e := range p.Errors {
			fmt.Fprintln(os.Stderr, "load error:", e)
			nerr++
		}
	}
	if nerr > 0 {
		return nil, fmt.Errorf("%d package load errors (the tree under %s does not type-check with -tags verif)", nerr, repoDir)
	}
	prog, spkgs := ssautil.Packages(pkgs, ssa.GlobalDebug|ssa.BareInits)
	prog.Build()
	w := &world{prog: prog, pkgs: pkgs, spkgs: spkgs, contracts: map[string]*contractFile{}, files: map[string]*ast.File{}, pkgOfFile: map[string]*packages.Package{}, trustedExt: map[string]*contract{}, specRec: map[*ssa.Function]bool{}}
	if b, err := os.ReadFile(filepath.Join(verifDir, "trusted", "stdlib.contracts.go")); err == nil {
		cf, err := parseContractFile("trusted/stdlib.contracts.go", string(b))
		if err != nil {
			return nil, err
		}
		w.trustedExt = cf.trusted
	}
	if len(pkgs) > 0 {
		w.fset = pkgs[0].Fset
	}
	w.classes = newTypeClasses()
	seenP := map[*types.Package]bool{}
	for _, p := range pkgs {
		if p.Types != nil {
			w.classes.scanPackage(p.Types, seenP)
		}
	}
	for _, p := range pkgs {
		for i, f := range p.Syntax {
			name := p.CompiledGoFiles[i]
			w.files[name] = f
			w.pkgOfFile[name] = p
		}
	}
	return w, nil
}

// contractsFor returns the parsed contract file of a package (by import path), nil if none.
func (w *world) contractsFor(pkgPath string) *contractFile {
	if cf, ok := w.contracts[pkgPath]; ok {
		return cf
	}
	var cf *contractFile
	if strings.HasPrefix(pkgPath, modulePath) {
		dir := filepath.Join(repoDir, strings.TrimPrefix(pkgPath, modulePath))
		// one or more files per package: zz_verif_contracts.go, zz_verif_contracts_<topic>.go
		paths, _ := filepath.Glob(filepath.Join(dir, "zz_verif_contracts*.go"))
		sort.Strings(paths)
		for _, path := range paths {
			b, err := os.ReadFile(path)
			if err != nil {
				continue
			}
			c, err := parseContractFile(path, string(b))
			if err != nil {
				fmt.Fprintln(os.Stderr, "contract file error:", err)
				os.Exit(2)
			}
			if cf == nil {
				cf = c
				continue
			}
			for k, v := range c.funcs {
				if _, dup := cf.funcs[k]; dup {
					fmt.Fprintf(os.Stderr, "contract file error: duplicate contract for %s in %s\n", k, path)
					os.Exit(2)
				}
				cf.funcs[k] = v
			}
			for k, v := range c.ifaces {
				cf.ifaces[k] = v
			}
			for k, v := range c.trusted {
				cf.trusted[k] = v
			}
		}
	}
	if cf == nil {
		cf = &contractFile{funcs: map[string]*contract{}, ifaces: map[string]*contract{}, trusted: map[string]*contract{}}
	}
	// trusted contracts for external packages live in /verif/trusted/*.contracts
	w.contracts[pkgPath] = cf
	return cf
}

func (w *world) contractOf(fn *ssa.Function) *contract {
	if fn == nil || fn.Pkg == nil {
		if fn != nil && fn.Object() != nil && fn.Object().Pkg() != nil {
			return w.contractsFor(fn.Object().Pkg().Path()).funcs[fnKey(fn)]
		}
		return nil
	}
	return w.contractsFor(fn.Pkg.Pkg.Path()).funcs[fnKey(fn)]
}

// fnKey is the contract key of a function inside its package: F, T.M, (*T).M, F$1.
func fnKey(fn *ssa.Function) string {
	if fn.Parent() != nil {
		// closure: Parent$N
		return fnKey(fn.Parent()) + fn.Name()[strings.LastIndex(fn.Name(), "$"):]
	}
	if fn.Signature.Recv() != nil {
		rt := fn.Signature.Recv().Type()
		if p, ok := rt.(*types.Pointer); ok {
			if n, ok := p.Elem().(*types.Named); ok {
				return "(*" + n.Obj().Name() + ")." + fn.Name()
			}
		}
		if n, ok := rt.(*types.Named); ok {
			return n.Obj().Name() + "." + fn.Name()
		}
	}
	return fn.Name()
}

func pkgShort(fn *ssa.Function) string {
	for f := fn; f != nil; f = f.Parent() {
		if f.Pkg != nil {
			return f.Pkg.Pkg.Name()
		}
		if f.Object() != nil && f.Object().Pkg() != nil {
			return f.Object().Pkg().Name()
		}
	}
	return "?"
}

func pkgPathOf(fn *ssa.Function) string {
	for f := fn; f != nil; f = f.Parent() {
		if f.Pkg != nil {
			return f.Pkg.Pkg.Path()
		}
		if f.Object() != nil && f.Object().Pkg() != nil {
			return f.Object().Pkg().Path()
		}
	}
	return ""
}

// fnKeyQ is the package-qualified display key used in obligation names.
func fnKeyQ(fn *ssa.Function) string {
	k := fnKey(fn)
	p := pkgShort(fn)
	if strings.HasPrefix(k, "(") {
		return k[:1] + strings.Replace(k[1:], "*", "*"+p+".", 1)
	}
	return p + "." + k
}

// findFunc resolves "pkgname.Key" or "Key" (searched in all loaded packages).
func (w *world) findFunc(name string) *ssa.Function {
	for _, sp := range w.spkgs {
		if sp == nil {
			continue
		}
		for _, fn := range w.functionsOf(sp) {
			if fnKey(fn) == name || fnKeyQ(fn) == name || sp.Pkg.Name()+"."+fnKey(fn) == name {
				return fn
			}
		}
	}
	return nil
}

func (w *world) functionsOf(sp *ssa.Package) []*ssa.Function {
	var out []*ssa.Function
	seen := map[*ssa.Function]bool{}
	var add func(f *ssa.Function)
	add = func(f *ssa.Function) {
		if f == nil || seen[f] {
			return
		}
		seen[f] = true
		out = append(out, f)
		for _, af := range f.AnonFuncs {
			add(af)
		}
	}
	for _, mem := range sp.Members {
		switch m := mem.(type) {
		case *ssa.Function:
			add(m)
		case *ssa.Type:
			for _, T := range []types.Type{m.Type(), types.NewPointer(m.Type())} {
				ms := w.prog.MethodSets.MethodSet(T)
				for i := 0; i < ms.Len(); i++ {
					f := w.prog.MethodValue(ms.At(i))
					if f != nil && f.Pkg == sp && f.Synthetic == "" {
						add(f)
					}
				}
			}
		}
	}
	return out
}

// ---------------------------------------------------------------------------------------
// contract files

type contract struct {
	key        string
	requires   []clause
	ensures    []clause
	invariants map[int][]clause
	decreases  map[int]string
	loopAssign map[int][]string
	assigns    []string // expressions naming objects the function may write; nil = unknown (havoc all); ["nothing"]
	hasAssigns bool
	assertAts  []*assertAt // ghost assertions at the call sites of a named event (value level)
	orders     []orderRule // typestate: event A (returned without error) must precede event B on every path
	absDivMod  bool // division/modulo by non-constants as uninterpreted functions with instance axioms
	reads      []string // pure functions: pointer parameters whose pointee object is all the function reads (assumed)
	assumedFrame bool
	inline     bool
	noinline   bool
	panicsWhen string
	pure       bool // result is a function of the arguments and the heap rows it reads (usable as spec function)
	line       int
}

// assertAt: `assertat <recv.path.Method> <label>: <expr>`: at every call of that method on that receiver expression in
// the function under contract (incl. its function literals), expr must hold; expr may name the locals in scope at the
// call and the call's arguments as arg0, arg1, ...
type assertAt struct {
	event string
	cl    clause
	seen  bool
}

type orderRule struct {
	label, before, after string
}

type clause struct {
	label string
	expr  string
}

type contractFile struct {
	path    string
	funcs   map[string]*contract
	ifaces  map[string]*contract
	trusted map[string]*contract
}

var labelRe = regexp.MustCompile(`^([A-Za-z_][A-Za-z0-9_\-]*):\s+(.*)$`)

func splitLabel(s string) clause {
	s = strings.TrimSpace(s)
	if m := labelRe.FindStringSubmatch(s); m != nil {
		return clause{m[1], m[2]}
	}
	return clause{"", s}
}

func parseContractFile(path, src string) (*contractFile, error) {
	cf := &contractFile{path: path, funcs: map[string]*contract{}, ifaces: map[string]*contract{}, trusted: map[string]*contract{}}
	var cur *contract
	var lastClause *clause
	for ln, line := range strings.Split(src, "\n") {
		line = strings.TrimSpace(line)
		if !strings.HasPrefix(line, "//@") {
			continue
		}
		body := strings.TrimSpace(line[3:])
		if body == "" || strings.HasPrefix(body, "#") {
			continue
		}
		if i := strings.Index(body, " # "); i >= 0 {
			body = strings.TrimSpace(body[:i])
		}
		f := strings.Fields(body)
		newC := func() *contract {
			return &contract{invariants: map[int][]clause{}, decreases: map[int]string{}, loopAssign: map[int][]string{}, line: ln + 1}
		}
		rest := func(kw string) string { return strings.TrimSpace(strings.TrimPrefix(body, kw)) }
		switch f[0] {
		case "func":
			cur = newC()
			cur.key = rest("func")
			if _, dup := cf.funcs[cur.key]; dup {
				return nil, fmt.Errorf("%s:%d: duplicate contract for %s", path, ln+1, cur.key)
			}
			cf.funcs[cur.key] = cur
			lastClause = nil
		case "iface":
			cur = newC()
			cur.key = f[1]
			cf.ifaces[f[1]] = cur
			lastClause = nil
		case "trusted":
			cur = newC()
			cur.key = strings.TrimSpace(strings.TrimPrefix(rest("trusted"), "func"))
			cf.trusted[cur.key] = cur
			lastClause = nil
		case "requires":
			if cur == nil {
				return nil, fmt.Errorf("%s:%d: clause outside block", path, ln+1)
			}
			cur.requires = append(cur.requires, splitLabel(rest("requires")))
			lastClause = &cur.requires[len(cur.requires)-1]
		case "ensures":
			if cur == nil {
				return nil, fmt.Errorf("%s:%d: clause outside block", path, ln+1)
			}
			cur.ensures = append(cur.ensures, splitLabel(rest("ensures")))
			lastClause = &cur.ensures[len(cur.ensures)-1]
		case "assigns":
			cur.hasAssigns = true
			for _, a := range splitTopLevel(rest("assigns"), ',') {
				a = strings.TrimSpace(a)
				if a == "internal" {
					// the callee may also update its own internal state, which the verified callers never read: an
					// ASSUMED frame (listed in the evidence, never checked against the callee's body)
					cur.assumedFrame = true
					continue
				}
				if a != "" && a != "nothing" {
					cur.assigns = append(cur.assigns, a)
				}
			}
			lastClause = nil
		case "assertat":
			if cur == nil || len(f) < 3 {
				return nil, fmt.Errorf("%s:%d: bad assertat clause", path, ln+1)
			}
			a := &assertAt{event: f[1], cl: splitLabel(strings.TrimSpace(strings.TrimPrefix(rest("assertat"), f[1])))}
			cur.assertAts = append(cur.assertAts, a)
			lastClause = &a.cl
		case "order":
			// order <label>: <event A> before <event B>     events: <path>.<Method> | store <path>
			r := rest("order")
			cl := splitLabel(r)
			parts := strings.SplitN(cl.expr, " before ", 2)
			if len(parts) != 2 {
				return nil, fmt.Errorf("%s:%d: bad order clause", path, ln+1)
			}
			cur.orders = append(cur.orders, orderRule{cl.label, strings.TrimSpace(parts[0]), strings.TrimSpace(parts[1])})
			lastClause = nil
		case "reads":
			for _, a := range splitTopLevel(rest("reads"), ',') {
				cur.reads = append(cur.reads, strings.TrimSpace(a))
			}
		case "divmod":
			cur.absDivMod = len(f) > 1 && f[1] == "abstract"
		case "inline":
			cur.inline = true
		case "noinline":
			cur.noinline = true
		case "pure":
			cur.pure = true
		case "panics":
			if len(f) > 2 && f[1] == "when" {
				cur.panicsWhen = strings.TrimSpace(strings.SplitN(body, "when", 2)[1])
			}
		case "loop":
			n, err := strconv.Atoi(f[1])
			if err != nil || len(f) < 3 {
				return nil, fmt.Errorf("%s:%d: bad loop clause", path, ln+1)
			}
			r := strings.TrimSpace(strings.SplitN(body, f[2], 2)[1])
			switch f[2] {
			case "invariant":
				cur.invariants[n] = append(cur.invariants[n], splitLabel(r))
				cl := cur.invariants[n]
				lastClause = &cl[len(cl)-1]
			case "decreases":
				cur.decreases[n] = r
				lastClause = nil
			case "assigns":
				for _, a := range splitTopLevel(r, ',') {
					cur.loopAssign[n] = append(cur.loopAssign[n], strings.TrimSpace(a))
				}
				lastClause = nil
			default:
				return nil, fmt.Errorf("%s:%d: bad loop clause %q", path, ln+1, f[2])
			}
		case "&&", "||", "==>":
			// continuation line
			if lastClause == nil {
				return nil, fmt.Errorf("%s:%d: continuation without clause", path, ln+1)
			}
			lastClause.expr += " " + body
		default:
			// any other line continues the previous clause
			if lastClause == nil {
				return nil, fmt.Errorf("%s:%d: unknown contract keyword %q", path, ln+1, f[0])
			}
			lastClause.expr += " " + body
		}
	}
	return cf, nil
}

func splitTopLevel(s string, sep byte) []string {
	var out []string
	depth, start := 0, 0
	inStr := false
	for i := 0; i < len(s); i++ {
		c := s[i]
		if inStr {
			if c == '\\' {
				i++
			} else if c == '"' {
				inStr = false
			}
			continue
		}
		switch c {
		case '"':
			inStr = true
		case '(', '[', '{':
			depth++
		case ')', ']', '}':
			depth--
		default:
			if c == sep && depth == 0 {
				out = append(out, s[start:i])
				start = i + 1
			}
		}
	}
	out = append(out, s[start:])
	return out
}

// rewriteImp turns the spec-only operator  a ==> b  into the call imp(a, b) so that go/parser accepts it.
func rewriteImp(s string) string {
	parts := splitTopLevel(s, ',')
	if len(parts) > 1 {
		for i := range parts {
			parts[i] = rewriteImp(parts[i])
		}
		return strings.Join(parts, ",")
	}
	// top-level ==> (right associative)
	depth := 0
	inStr := false
	for i := 0; i+2 < len(s); i++ {
		c := s[i]
		if inStr {
			if c == '\\' {
				i++
			} else if c == '"' {
				inStr = false
			}
			continue
		}
		switch c {
		case '"':
			inStr = true
		case '(', '[', '{':
			depth++
		case ')', ']', '}':
			depth--
		}
		if depth == 0 && s[i:i+3] == "==>" {
			return "imp(" + rewriteImp(s[:i]) + ", " + rewriteImp(s[i+3:]) + ")"
		}
	}
	// recurse into groups
	var sb strings.Builder
	for i := 0; i < len(s); i++ {
		c := s[i]
		if c == '"' {
			j := i + 1
			for j < len(s) && s[j] != '"' {
				if s[j] == '\\' {
					j++
				}
				j++
			}
			sb.WriteString(s[i:min(j+1, len(s))])
			i = j
			continue
		}
		if c == '(' || c == '[' {
			closeC := byte(')')
			if c == '[' {
				closeC = ']'
			}
			d := 0
			j := i
			for ; j < len(s); j++ {
				if s[j] == '(' || s[j] == '[' || s[j] == '{' {
					d++
				} else if s[j] == ')' || s[j] == ']' || s[j] == '}' {
					d--
					if d == 0 {
						break
					}
				}
			}
			if j >= len(s) {
				sb.WriteString(s[i:])
				break
			}
			sb.WriteByte(c)
			sb.WriteString(rewriteImp(s[i+1 : j]))
			sb.WriteByte(closeC)
			i = j
			continue
		}
		sb.WriteByte(c)
	}
	return sb.String()
}

func parseSpec(src string) (ast.Expr, error) {
	return parser.ParseExpr(rewriteImp(src))
}
