package main

import (
	"fmt"
	"os"
	"go/types"

	"golang.org/x/tools/go/ssa"
)

// Go maps as heap objects (value level only; at the typestate level maps stay opaque).
//
// A map object is an ordinary heap object whose SLOTS ARE INDEXED BY THE KEY: the value stored under key k lives at slot
// slot(k) of the heap kinds of the element type, the presence flag at the same slot of kind HIt (0 = absent). So map
// contents take part in heap versioning, havoc at calls, loop frames and `assigns` clauses like every other object.
//   slot(k) = k sign/zero-extended to 64 bits for integer keys (injective), 0/1 for bool keys, and an UNCONSTRAINED
//   uninterpreted function of the key value for strings / byte arrays / pointers: two distinct key values may or may not
//   share a slot in a model (sound: Go strings with equal contents must be the same key, and the function is free to
//   identify them; it only costs completeness).
// Modelled: element types that occupy one slot and no interface cell (integers, bools, floats, pointers, strings, slices,
// maps, funcs, chans). Every other map stays opaque (lookups are unconstrained values), as before.
// len(m) stays an unconstrained non-negative value; `range` yields an arbitrary present key with its value (no order, no
// completeness: an invariant can say "everything yielded so far came from the map", not "everything was visited").

// noMaps: unit option / environment switch: maps stay opaque (the behaviour before maps were modelled)
var noMaps = os.Getenv("GOVC_NOMAPS") != ""

func mapModelled(t types.Type) (*types.Map, bool) {
	mt, ok := t.Underlying().(*types.Map)
	if !ok || noMaps {
		return nil, false
	}
	if slots(mt.Elem()) != 1 {
		return nil, false
	}
	for _, k := range kindsOf(mt.Elem()) {
		if k == "HIt" {
			return nil, false
		}
	}
	switch u := mt.Elem().Underlying().(type) {
	case *types.Struct, *types.Array, *types.Interface:
		_ = u
		return nil, false
	}
	if _, _, ok := intW(mt.Key()); ok {
		return mt, true
	}
	switch u := mt.Key().Underlying().(type) {
	case *types.Basic:
		if u.Info()&(types.IsBoolean|types.IsString) != 0 {
			return mt, true
		}
	case *types.Pointer:
		return mt, true
	case *types.Array:
		if _, ok := isByteArray(mt.Key()); ok {
			return mt, true
		}
	}
	return nil, false
}

// mapSlot: the slot (64-bit term) of key in a modelled map.
func (g *gen) mapSlot(key *val) (string, bool) {
	switch key.k {
	case kInt:
		if key.w == 64 {
			return key.t[0], true
		}
		if key.signed {
			return fmt.Sprintf("((_ sign_extend %d) %s)", 64-key.w, key.t[0]), true
		}
		return fmt.Sprintf("((_ zero_extend %d) %s)", 64-key.w, key.t[0]), true
	case kBool:
		return fmt.Sprintf("(ite %s #x0000000000000001 %s)", key.t[0], z64), true
	case kSlice: // string key
		g.declFun("MAPKEY_str", "(Int (_ BitVec 64) (_ BitVec 64)) (_ BitVec 64)")
		return fmt.Sprintf("(MAPKEY_str %s %s %s)", key.t[0], key.t[1], key.t[2]), true
	case kPtr:
		g.declFun("MAPKEY_ptr", "(Int (_ BitVec 64)) (_ BitVec 64)")
		return fmt.Sprintf("(MAPKEY_ptr %s %s)", key.t[0], key.t[1]), true
	case kArr:
		if key.w == 0 {
			return z64, true
		}
		fn := fmt.Sprintf("MAPKEY_arr%d", key.w)
		g.declFun(fn, fmt.Sprintf("((_ BitVec %d)) (_ BitVec 64)", key.w))
		return fmt.Sprintf("(%s %s)", fn, key.t[0]), true
	}
	return "", false
}

func mapPresent(h heap, ref, slot string) string {
	return fmt.Sprintf("(and (not (= %s 0)) (not (= %s 0)))", ref, sel(h["HIt"], ref, slot))
}

// mapGet: (value or zero value, presence) of m[key] in heap h.
func (fc *fnCtx) mapGet(h heap, mt *types.Map, m, key *val, guard string) (*val, string, bool) {
	slot, ok := fc.g.mapSlot(key)
	if !ok || len(m.t) == 0 {
		return nil, "", false
	}
	if !isSimple(slot) && fc.g.inQuant == 0 {
		slot = fc.g.bind("mslot", "(_ BitVec 64)", slot)
	}
	pres := mapPresent(h, m.t[0], slot)
	if fc.g.inQuant == 0 {
		pres = fc.g.bind("mpres", "Bool", pres)
	}
	ld := fc.loadH(h, mt.Elem(), m.t[0], slot, guard)
	return fc.ite(pres, ld, fc.g.zeroVal(mt.Elem())), pres, true
}

func (fc *fnCtx) makeMap(x *ssa.MakeMap) {
	ref := fc.alloc("mk", nil)
	if _, ok := mapModelled(x.Type()); ok && !fc.g.lite {
		fc.curH["HIt"] = fmt.Sprintf("(store %s %s ((as const %s) 0))", fc.curH["HIt"], ref, rowSort("Int"))
		fc.nameHeaps()
	}
	mv := &val{k: kOpaque, ty: x.Type(), t: []string{ref}}
	fc.classAssume(mv, x.Type(), fc.curR)
	fc.set(x, mv)
}

func (fc *fnCtx) mapUpdate(x *ssa.MapUpdate) {
	m := fc.v(x.Map)
	fc.oblige("nilmap", fc.srcOr(x.Pos(), "index", x.Map.Name()+"[..]="), fmt.Sprintf("(not (= %s 0))", m.t[0]), x.Pos())
	mt, ok := mapModelled(x.Map.Type())
	if !ok || fc.g.lite {
		return
	}
	slot, ok := fc.g.mapSlot(fc.v(x.Key))
	if !ok {
		fc.g.unmodelled["mapkey:"+x.Key.Type().String()]++
		fc.havocHeap("mapupdate", "", true)
		return
	}
	if !isSimple(slot) {
		slot = fc.g.bind("mslot", "(_ BitVec 64)", slot)
	}
	v := fc.v(x.Value)
	if v.k == kOpaque && len(v.elems) == 0 && v.ty == nil {
		v = fc.coerceNil(v, fc.g.zeroVal(mt.Elem()))
	}
	fc.store(mt.Elem(), m.t[0], slot, v)
	fc.curH["HIt"] = sto(fc.curH["HIt"], m.t[0], slot, "1")
	fc.nameHeaps()
}

func (fc *fnCtx) mapLookup(x *ssa.Lookup) bool {
	mt, ok := mapModelled(x.X.Type())
	if !ok || fc.g.lite {
		return false
	}
	v, pres, ok := fc.mapGet(fc.curH, mt, fc.v(x.X), fc.v(x.Index), fc.curR)
	if !ok {
		return false
	}
	if x.CommaOk {
		fc.set(x, &val{k: kTuple, elems: []*val{v, {k: kBool, t: []string{pres}}}})
	} else {
		fc.set(x, v)
	}
	return true
}

func (fc *fnCtx) mapDelete(cs *callSite) bool {
	if len(cs.common.Args) != 2 || fc.g.lite {
		return false
	}
	if _, ok := mapModelled(cs.common.Args[0].Type()); !ok {
		return false
	}
	slot, ok := fc.g.mapSlot(cs.args[1])
	if !ok {
		return false
	}
	m := cs.args[0]
	// delete on a nil map is a no-op: row 0 is never read as present
	fc.curH["HIt"] = sto(fc.curH["HIt"], m.t[0], slot, "0")
	fc.nameHeaps()
	return true
}

// mapNext: one step of `range m`: when ok, the yielded key is present and the yielded value is the stored one.
func (fc *fnCtx) mapNext(x *ssa.Next, v *val) {
	rg, isR := x.Iter.(*ssa.Range)
	if !isR || fc.g.lite || v.k != kTuple || len(v.elems) != 3 {
		return
	}
	mt, ok := mapModelled(rg.X.Type())
	if !ok {
		return
	}
	okv, kv, vv := v.elems[0], v.elems[1], v.elems[2]
	if okv.k != kBool || kv == nil || len(kv.t) == 0 {
		return
	}
	if tup, isT := x.Type().(*types.Tuple); isT && tup.Len() == 3 {
		if b, isB := tup.At(1).Type().(*types.Basic); isB && b.Kind() == types.Invalid {
			return // key unused: nothing to say
		}
	}
	got, pres, ok := fc.mapGet(fc.curH, mt, fc.v(rg.X), kv, fc.curR)
	if !ok {
		return
	}
	f := pres
	if vv != nil && vv.k == got.k && len(vv.t) == len(got.t) && len(vv.t) > 0 {
		for i := range vv.t {
			f = fmt.Sprintf("(and %s (= %s %s))", f, vv.t[i], got.t[i])
		}
	}
	fc.g.assume(fmt.Sprintf("(=> (and %s %s) %s)", fc.curR, okv.t[0], f))
}
