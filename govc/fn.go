package main

import (
	"bytes"
	"fmt"
	"go/ast"
	"go/constant"
	"go/printer"
	"go/token"
	"go/types"
	"sort"
	"strings"

	"golang.org/x/tools/go/ast/astutil"
	"golang.org/x/tools/go/ssa"
)

type retSite struct {
	cells map[*ssa.Alloc]*val
	label string
	reach string
	vals  []*val
	h     heap
	ac    string
	blk   *ssa.BasicBlock // block of the return instruction (resolution of locals in postconditions)
}

type localBind struct {
	cell   *ssa.Alloc
	b      *ssa.BasicBlock
	v      *val
	isAddr bool
	ty     types.Type
}

type fnCtx struct {
	fromMk    *ssa.MakeClosure // this context is the inlined body of that function literal
	pendingMk *ssa.MakeClosure
	g      *gen
	fn     *ssa.Function
	pfx    string
	depth  int
	parent *fnCtx
	vals   map[ssa.Value]*val

	entryReach string
	entryHeap  heap
	entryAC    string

	reach   map[*ssa.BasicBlock]string
	heapOut map[*ssa.BasicBlock]heap
	acOut   map[*ssa.BasicBlock]string
	rets    []retSite

	loopOrd        map[*ssa.BasicBlock]int // header -> ordinal
	loopEntryH     map[*ssa.BasicBlock]heap
	loopEntryAC    map[*ssa.BasicBlock]string
	loopHdrH       map[*ssa.BasicBlock]heap
	loopMod        map[*ssa.BasicBlock][]string
	loopNames      map[*ssa.BasicBlock]map[string]*val
	loopEntryNames map[*ssa.BasicBlock]map[string]*val
	loopGLEntry map[*ssa.BasicBlock]string
	loopCells   map[*ssa.BasicBlock][]*ssa.Alloc
	curH           heap
	curAC          string
	curR           string
	curB           *ssa.BasicBlock

	locals   map[string][]localBind
	defers   []deferred
	mutexes  map[string][2]string // key -> (ref, off) of mutexes locked/unlocked (recorded at the top-level ctx)
	callPath string
	specMode bool
	allocNames map[string]bool
	stackRefs  []string
	immRefs    []string // objects holding the bytes of string values (immutable)
	instFns    []*instFn
	instSeen   map[string]bool
	instTerms  []string
	fwd        map[string]*val
	cells      map[*ssa.Alloc]*val // promoted non-escaping locals (whole-value cells), see promotable()
	cellsOut   map[*ssa.BasicBlock]map[*ssa.Alloc]*val
	dbgNames map[ssa.Value]string
	promo      map[*ssa.Alloc]bool
	sliceLos   []string
}

type deferred struct {
	guard string
	call  *ssa.Defer
	args  []*val
	fnv   *val
}

func (g *gen) newFnCtx(fn *ssa.Function, pfx string, depth int, parent *fnCtx) *fnCtx {
	return &fnCtx{g: g, fn: fn, pfx: pfx, depth: depth, parent: parent, vals: map[ssa.Value]*val{}, mutexes: map[string][2]string{},
		reach: map[*ssa.BasicBlock]string{}, heapOut: map[*ssa.BasicBlock]heap{}, acOut: map[*ssa.BasicBlock]string{},
		loopOrd: map[*ssa.BasicBlock]int{}, loopEntryH: map[*ssa.BasicBlock]heap{}, loopEntryAC: map[*ssa.BasicBlock]string{},
		loopHdrH: map[*ssa.BasicBlock]heap{}, loopMod: map[*ssa.BasicBlock][]string{}, loopNames: map[*ssa.BasicBlock]map[string]*val{}, loopEntryNames: map[*ssa.BasicBlock]map[string]*val{}, loopGLEntry: map[*ssa.BasicBlock]string{}, cellsOut: map[*ssa.BasicBlock]map[*ssa.Alloc]*val{}, loopCells: map[*ssa.BasicBlock][]*ssa.Alloc{},
		locals: map[string][]localBind{}}
}

func (fc *fnCtx) topCtx() *fnCtx {
	t := fc
	for t.parent != nil {
		t = t.parent
	}
	return t
}

// name used in obligation names for the function an instruction belongs to
func (fc *fnCtx) oblFn() string {
	if fc.parent == nil {
		return fnKeyQ(fc.fn)
	}
	return fnKeyQ(fc.topCtx().fn) + ">" + fnKeyQ(fc.fn)
}

func (fc *fnCtx) wfRefAssume(v *val, ac string, guard string) {
	g := fc.g
	var r string
	switch v.k {
	case kPtr, kSlice, kOpaque:
		r = v.t[0]
	case kIface:
		r = v.t[1]
	case kStruct, kTuple:
		for _, e := range v.elems {
			fc.wfRefAssume(e, ac, guard)
		}
		return
	default:
		return
	}
	f := fmt.Sprintf("(< %s %s)", r, ac)
	if v.k == kPtr && len(v.t) > 1 {
		// offsets are field/element offsets inside an object of at most MAXLEN slots
		f = fmt.Sprintf("(and %s (bvsle %s %s) (bvslt %s MAXLEN))", f, z64, v.t[1], v.t[1])
	}
	if v.k == kPtr || v.k == kIface || v.k == kOpaque || (v.k == kSlice && !byteSliceType(v.ty)) {
		// only strings and byte slices can designate the immutable string-constant objects
		f = fmt.Sprintf("(and %s (> %s (- %d)))", f, r, strRefBase)
	}
	if guard != "" && guard != "true" {
		f = fmt.Sprintf("(=> %s %s)", guard, f)
	}
	g.assume(f)
}

func (fc *fnCtx) bindParamsFresh() {
	g := fc.g
	fc.entryReach = "true"
	fc.entryHeap = g.freshHeap("in")
	fc.entryAC = g.declare(g.freshName("AC0"), "Int")
	g.assume(fmt.Sprintf("(< 0 %s)", fc.entryAC))
	g.replay = &replayInfo{fn: fc.fn, heap: fc.entryHeap, ac: fc.entryAC}
	g.entryHB = fc.entryHeap["HB"]
	for _, p := range fc.fn.Params {
		v := g.newVal(fc.pfx+p.Name(), p.Type())
		fc.vals[p] = v
		fc.wfRefAssume(v, fc.entryAC, "")
		fc.classAssume(v, p.Type(), "")
		if isString(p.Type()) && v.k == kSlice {
			fc.immRefs = append(fc.immRefs, v.t[0])
		}
		g.replay.params = append(g.replay.params, replayParam{p.Name(), p.Type(), v})
	}
	if recv := fc.fn.Signature.Recv(); recv != nil && len(fc.fn.Params) > 0 {
		if _, ok := recv.Type().Underlying().(*types.Pointer); ok {
			// a method call through a nil receiver is the caller's fault: receivers are assumed non-nil
			g.assume(fmt.Sprintf("(not (= %s 0))", fc.vals[fc.fn.Params[0]].t[0]))
		}
	}
	for _, fv := range fc.fn.FreeVars {
		v := g.newVal(fc.pfx+fv.Name(), fv.Type())
		fc.vals[fv] = v
		fc.wfRefAssume(v, fc.entryAC, "")
		if _, isPtr := fv.Type().Underlying().(*types.Pointer); isPtr && fc.fn.Parent() != nil && fc.fn.Synthetic == "" && len(v.t) > 0 {
			// the free variable of a function literal is the address of the captured variable's cell: never nil
			g.assume(fmt.Sprintf("(not (= %s 0))", v.t[0]))
		}
	}
	// heap well-formedness at entry: every reference stored anywhere in the entry heap is older than AC0
	if !g.lite {
		g.registerBaseHeap(fc.entryHeap, fc.entryAC)
	}
	if c := g.topContract(fc.fn); c != nil {
		sc := fc.specCtxEntry()
		for _, r := range c.requires {
			f, err := sc.assumeSpec(r.expr)
			if err != nil {
				fatalContract(fc.fn, "requires", r.expr, err)
			}
			g.assume(f)
		}
	}
}

func fatalContract(fn *ssa.Function, kind, expr string, err error) {
	panic(fmt.Sprintf("contract error in %s: %s %q: %v", fnKeyQ(fn), kind, expr, err))
}

func isBackEdge(from, to *ssa.BasicBlock) bool { return to.Dominates(from) }

// reverse postorder ignoring back edges
func rpo(fn *ssa.Function) []*ssa.BasicBlock {
	var order []*ssa.BasicBlock
	seen := map[*ssa.BasicBlock]bool{}
	var dfs func(b *ssa.BasicBlock)
	dfs = func(b *ssa.BasicBlock) {
		seen[b] = true
		for _, s := range b.Succs {
			if !seen[s] && !isBackEdge(b, s) {
				dfs(s)
			}
		}
		order = append(order, b)
	}
	dfs(fn.Blocks[0])
	for i, j := 0, len(order)-1; i < j; i, j = i+1, j-1 {
		order[i], order[j] = order[j], order[i]
	}
	return order
}

func (fc *fnCtx) edgeCond(p, b *ssa.BasicBlock) string {
	r := fc.reach[p]
	if ifi, ok := p.Instrs[len(p.Instrs)-1].(*ssa.If); ok {
		c := fc.v(ifi.Cond).t[0]
		if p.Succs[0] == b && p.Succs[1] == b {
			return r
		}
		if p.Succs[0] == b {
			return and(r, c)
		}
		return and(r, "(not "+c+")")
	}
	return r
}

// loopBlocks: blocks of the natural loop with header h.
func loopBlocks(h *ssa.BasicBlock) map[*ssa.BasicBlock]bool {
	body := map[*ssa.BasicBlock]bool{h: true}
	var work []*ssa.BasicBlock
	for _, p := range h.Preds {
		if isBackEdge(p, h) && !body[p] {
			body[p] = true
			work = append(work, p)
		}
	}
	for len(work) > 0 {
		b := work[len(work)-1]
		work = work[:len(work)-1]
		for _, p := range b.Preds {
			if !body[p] && h.Dominates(p) {
				body[p] = true
				work = append(work, p)
			}
		}
	}
	return body
}

// loopEffects reports whether the loop may write the heap, and the objects (by SSA base value defined outside the loop)
// it writes, looking through the callees that will be inlined and through the assigns clauses of contracts.
// The result is only a *candidate* modifies set: the frame obligation on the back edge checks it.
type baseRes struct {
	v       ssa.Value // outer value naming the written object, nil if none
	fresh   bool      // allocated inside the loop
	unknown bool
}

type writeScan struct {
	fc         *fnCtx
	body       map[*ssa.BasicBlock]bool
	effects    bool
	unknown    bool
	bases      []ssa.Value
	seen       map[ssa.Value]bool
	visited    map[*ssa.Function]int
	appendPhis map[*ssa.Phi]ssa.Value
}

func (ws *writeScan) resolve(v ssa.Value, subst map[ssa.Value]baseRes, top bool, depth int) baseRes {
	if depth > 30 {
		return baseRes{unknown: true}
	}
	if r, ok := subst[v]; ok {
		return r
	}
	if top {
		if in, ok := v.(ssa.Instruction); ok && in.Block() != nil && !ws.body[in.Block()] {
			return baseRes{v: v}
		}
	}
	switch x := v.(type) {
	case *ssa.Parameter, *ssa.FreeVar:
		if top {
			return baseRes{v: v}
		}
		return baseRes{unknown: true}
	case *ssa.Global:
		return baseRes{v: v}
	case *ssa.FieldAddr:
		return ws.resolve(x.X, subst, top, depth+1)
	case *ssa.IndexAddr:
		return ws.resolve(x.X, subst, top, depth+1)
	case *ssa.Slice:
		return ws.resolve(x.X, subst, top, depth+1)
	case *ssa.ChangeType:
		return ws.resolve(x.X, subst, top, depth+1)
	case *ssa.Phi:
		if init, ok := ws.appendPhis[x]; ok && top {
			return ws.resolve(init, subst, top, depth+1)
		}
	case *ssa.Alloc, *ssa.MakeSlice, *ssa.MakeMap, *ssa.MakeClosure, *ssa.MakeInterface:
		return baseRes{fresh: true}
	case *ssa.Const:
		return baseRes{fresh: true}
	}
	return baseRes{unknown: true}
}

func (ws *writeScan) note(r baseRes) {
	ws.effects = true
	switch {
	case r.fresh:
	case r.v != nil:
		if !ws.seen[r.v] {
			ws.seen[r.v] = true
			ws.bases = append(ws.bases, r.v)
		}
	default:
		ws.unknown = true
	}
}

func (ws *writeScan) scan(fn *ssa.Function, blocks map[*ssa.BasicBlock]bool, subst map[ssa.Value]baseRes, top bool, depth int) {
	g := ws.fc.g
	for _, b := range fn.Blocks {
		if blocks != nil && !blocks[b] {
			continue
		}
		for _, in := range b.Instrs {
			switch x := in.(type) {
			case *ssa.Store:
				ws.note(ws.resolve(x.Addr, subst, top, 0))
			case *ssa.MapUpdate:
				ws.effects = true
				if _, ok := mapModelled(x.Map.Type()); ok {
					ws.note(ws.resolve(x.Map, subst, top, 0))
				}
			case *ssa.Send, *ssa.Go:
				ws.effects = true
			case *ssa.Defer:
				ws.effects = true
				ws.unknown = true
			case *ssa.Call:
				cc := &x.Call
				if bi, ok := cc.Value.(*ssa.Builtin); ok {
					if bi.Name() == "copy" || bi.Name() == "append" {
						ws.note(ws.resolve(cc.Args[0], subst, top, 0))
					}
					if bi.Name() == "delete" {
						if _, ok := mapModelled(cc.Args[0].Type()); ok {
							ws.note(ws.resolve(cc.Args[0], subst, top, 0))
						}
					}
					continue
				}
				ws.effects = true
				callee, ok := cc.Value.(*ssa.Function)
				if !ok || cc.IsInvoke() {
					ws.unknown = true
					continue
				}
				name := callee.String()
				if strings.HasPrefix(name, "(encoding/binary.bigEndian).PutUint") || strings.HasPrefix(name, "(encoding/binary.littleEndian).PutUint") {
					ws.note(ws.resolve(cc.Args[1], subst, top, 0))
					continue
				}
				if strings.HasPrefix(name, "(encoding/binary.") || name == "crypto/sha256.Sum256" || strings.HasPrefix(name, "(*sync.") || pureExternal(name) ||
					isSpecName(callee.Name()) || callee.Name() == "verifAssume" || callee.Name() == "verifAssert" || name == "bytes.Equal" || name == "errors.Is" {
					continue
				}
				var c *contract
				if tc := g.w.trustedExt[name]; tc != nil {
					c = tc
				} else if mc := g.w.contractOf(callee); mc != nil && !mc.inline {
					c = mc
				}
				if c != nil {
					if c.pure || (c.hasAssigns && len(c.assigns) == 0) {
						continue
					}
					if !c.hasAssigns {
						ws.unknown = true
						continue
					}
					// map assigns entries that are plain parameter names to the arguments
					sig := callee.Signature
					names := map[string]int{}
					k := 0
					if sig.Recv() != nil {
						names[sig.Recv().Name()] = 0
						names["self"] = 0
						k = 1
					}
					for i := 0; i < sig.Params().Len(); i++ {
						names[sig.Params().At(i).Name()] = k + i
					}
					for _, a := range c.assigns {
						if i, ok := names[a]; ok && i < len(cc.Args) {
							ws.note(ws.resolve(cc.Args[i], subst, top, 0))
						} else {
							ws.unknown = true
						}
					}
					continue
				}
				if callee.Blocks != nil && depth < g.maxDepth && ws.visited[callee] < 3 && strings.HasPrefix(pkgPathOf(callee), modulePath) {
					ws.visited[callee]++
					sub := map[ssa.Value]baseRes{}
					for i, p := range callee.Params {
						if i < len(cc.Args) {
							sub[p] = ws.resolve(cc.Args[i], subst, top, 0)
						}
					}
					ws.scan(callee, nil, sub, false, depth+1)
					ws.visited[callee]--
					continue
				}
				ws.unknown = true
			}
		}
	}
}

func (fc *fnCtx) loopEffects(h *ssa.BasicBlock) (bool, []ssa.Value, bool) {
	ws := &writeScan{fc: fc, body: loopBlocks(h), seen: map[ssa.Value]bool{}, visited: map[*ssa.Function]int{}, appendPhis: appendPhis(h)}
	ws.scan(fc.fn, ws.body, map[ssa.Value]baseRes{}, true, fc.depth)
	return ws.effects, ws.bases, ws.unknown
}

func (fc *fnCtx) computeLoopOrdinals(order []*ssa.BasicBlock) {
	type hp struct {
		b   *ssa.BasicBlock
		pos token.Pos
	}
	var hs []hp
	for _, b := range order {
		for _, p := range b.Preds {
			if isBackEdge(p, b) {
				// position: the smallest position among instructions of the loop (the for/range keyword is not in SSA)
				pos := token.NoPos
				for lb := range loopBlocks(b) {
					for _, in := range lb.Instrs {
						if in.Pos() != token.NoPos && (pos == token.NoPos || in.Pos() < pos) {
							pos = in.Pos()
						}
					}
				}
				hs = append(hs, hp{b, pos})
				break
			}
		}
	}
	// prefer the syntactic order of for/range statements when the source is available
	if stmts := fc.loopStmts(); len(stmts) == len(hs) && len(hs) > 0 {
		// match each header to the innermost for statement containing its position
		used := map[int]bool{}
		ok := true
		for _, h := range hs {
			best := -1
			for i, s := range stmts {
				if s.Pos() <= h.pos && h.pos < s.End() {
					if best < 0 || stmts[best].Pos() < s.Pos() {
						best = i
					}
				}
			}
			// an outer loop's smallest position is its own init/cond, which lies inside only that loop
			if best < 0 || used[best] {
				ok = false
				break
			}
			used[best] = true
			fc.loopOrd[h.b] = best + 1
		}
		if ok {
			return
		}
		for _, h := range hs {
			delete(fc.loopOrd, h.b)
		}
	}
	sort.SliceStable(hs, func(i, j int) bool { return hs[i].pos < hs[j].pos })
	for i, h := range hs {
		fc.loopOrd[h.b] = i + 1
	}
}

// loopStmts returns the for/range statements of the function body in source order (excluding nested func literals).
func (fc *fnCtx) loopStmts() []ast.Node {
	syn := fc.fn.Syntax()
	if syn == nil {
		return nil
	}
	var body *ast.BlockStmt
	switch s := syn.(type) {
	case *ast.FuncDecl:
		body = s.Body
	case *ast.FuncLit:
		body = s.Body
	}
	if body == nil {
		return nil
	}
	var out []ast.Node
	ast.Inspect(body, func(n ast.Node) bool {
		switch n.(type) {
		case *ast.FuncLit:
			return false
		case *ast.ForStmt, *ast.RangeStmt:
			out = append(out, n)
		}
		return true
	})
	return out
}

func (fc *fnCtx) run() {
	g := fc.g
	fn := fc.fn
	if len(fn.Blocks) == 0 {
		panic("no body: " + fn.String())
	}
	order := rpo(fn)
	fc.computeLoopOrdinals(order)
	c := g.topContract(fn)
	if c != nil && fc.parent == nil {
		// a loop clause that designates no loop of the SSA form decides nothing: report it instead of dropping it
		// (go/ssa fuses `for { for cond {..} .. }` into ONE loop with two back edges)
		have := map[int]bool{}
		for _, n := range fc.loopOrd {
			have[n] = true
		}
		bad := map[int]bool{}
		for n := range c.invariants {
			bad[n] = !have[n]
		}
		for n := range c.decreases {
			bad[n] = !have[n]
		}
		for n := range c.loopAssign {
			bad[n] = !have[n]
		}
		for n, b := range bad {
			if b {
				g.oblige(obligation{name: fmt.Sprintf("contract:%s:loop%d:no-such-loop", fnKeyQ(fn), n), kind: "contract", guard: "true", cond: "false"})
			}
		}
	}

	for _, b := range order {
		fc.curB = b
		isHeader := fc.loopOrd[b] > 0
		if b == fn.Blocks[0] {
			fc.cells = map[*ssa.Alloc]*val{}
			fc.curR, fc.curH, fc.curAC = fc.entryReach, fc.entryHeap.clone(), fc.entryAC
		} else {
			var conds []string
			var hin heap
			var acin string
			var cin map[*ssa.Alloc]*val
			first := true
			for _, p := range b.Preds {
				if isBackEdge(p, b) {
					continue
				}
				if _, done := fc.reach[p]; !done {
					continue // unreachable pred (e.g. recover block)
				}
				e := fc.edgeCond(p, b)
				conds = append(conds, e)
				if first {
					hin, acin, first = fc.heapOut[p].clone(), fc.acOut[p], false
					cin = map[*ssa.Alloc]*val{}
					for a, v := range fc.cellsOut[p] {
						cin[a] = v
					}
				} else {
					for a, v := range fc.cellsOut[p] {
						if old, ok := cin[a]; !ok {
							cin[a] = v
						} else if old != v {
							cin[a] = fc.ite(e, v, old)
						}
					}
					for k, t := range fc.heapOut[p] {
						if hin[k] != t {
							hin[k] = fmt.Sprintf("(ite %s %s %s)", e, t, hin[k])
						}
					}
					if acin != fc.acOut[p] {
						acin = fmt.Sprintf("(ite %s %s %s)", e, fc.acOut[p], acin)
					}
				}
			}
			if len(conds) == 0 {
				continue // unreachable block
			}
			r := g.declare(g.freshName(fmt.Sprintf("%sR_b%d", fc.pfx, b.Index)), "Bool")
			if len(conds) == 1 {
				g.assume(fmt.Sprintf("(= %s %s)", r, conds[0]))
			} else {
				g.assume(fmt.Sprintf("(= %s (or %s))", r, strings.Join(conds, " ")))
			}
			fc.curR, fc.curH, fc.curAC = r, hin, acin
			fc.cells = map[*ssa.Alloc]*val{}
			for a, v := range cin {
				fc.cells[a] = fc.named(fc.pfx+"cell_"+a.Comment, v)
			}
			for k, t := range fc.curH {
				if strings.HasPrefix(t, "(ite") {
					fc.curH[k] = g.bind(k+"_m", heapSort(kindSort(k)), t)
				}
			}
			if strings.HasPrefix(fc.curAC, "(ite") {
				fc.curAC = g.bind("ACm", "Int", fc.curAC)
			}
		}
		fc.reach[b] = fc.curR

		if isHeader {
			fc.loopHeader(b, c)
		}

		for _, in := range b.Instrs {
			g.instrs++
			fc.instr(in)
		}
		fc.heapOut[b] = fc.curH
		fc.acOut[b] = fc.curAC
		co := map[*ssa.Alloc]*val{}
		for a, v := range fc.cells {
			co[a] = v
		}
		fc.cellsOut[b] = co

		for _, s := range b.Succs {
			if isBackEdge(b, s) {
				fc.backEdge(b, s, c)
			}
		}
	}
}

// rangeIndexPhi recognises the index phi of a `for i := range x` loop: phi [entry: -1, body: phi+1] compared against a length.
func rangeIndexPhi(h *ssa.BasicBlock) (*ssa.Phi, ssa.Value) {
	for _, in := range h.Instrs {
		phi, ok := in.(*ssa.Phi)
		if !ok {
			break
		}
		if phi.Comment != "rangeindex" {
			continue
		}
		// find: t = phi + 1 ; cmp = t < len
		for _, in2 := range h.Instrs {
			bo, ok := in2.(*ssa.BinOp)
			if !ok || bo.Op != token.ADD || bo.X != phi {
				continue
			}
			for _, in3 := range h.Instrs {
				cmp, ok := in3.(*ssa.BinOp)
				if ok && cmp.Op == token.LSS && cmp.X == bo {
					return phi, cmp.Y
				}
			}
		}
	}
	return nil, nil
}

func (fc *fnCtx) loopHeader(b *ssa.BasicBlock, c *contract) {
	g := fc.g
	n := fc.loopOrd[b]
	var invs []clause
	if c != nil {
		invs = c.invariants[n]
	}
	// entry values of the loop-carried variables
	entryMap := map[string]*val{}
	for _, in := range b.Instrs {
		phi, ok := in.(*ssa.Phi)
		if !ok {
			break
		}
		for i, p := range b.Preds {
			if !isBackEdge(p, b) {
				if _, done := fc.reach[p]; done {
					entryMap[phi.Comment] = fc.v(phi.Edges[i])
				}
			}
		}
	}
	// promoted cells written inside the loop are loop-carried variables
	var loopCells []*ssa.Alloc
	for lb := range loopBlocks(b) {
		for _, in := range lb.Instrs {
			if st, ok := in.(*ssa.Store); ok {
				if a, ok := st.Addr.(*ssa.Alloc); ok && fc.promotable(a) {
					dup := false
					for _, x := range loopCells {
						dup = dup || x == a
					}
					if _, live := fc.cells[a]; live && !dup {
						loopCells = append(loopCells, a)
					}
				}
			}
		}
	}
	sort.Slice(loopCells, func(i, j int) bool { return loopCells[i].Pos() < loopCells[j].Pos() })
	for _, a := range loopCells {
		if a.Comment != "" {
			entryMap[a.Comment] = fc.cells[a]
		}
	}
	loopACe := g.bind("ACe", "Int", fc.curAC)
	fc.loopEntryNames[b] = entryMap
	fc.loopEntryAC[b] = loopACe
	for _, inv := range invs {
		sc := fc.specCtxAt(entryMap, fc.curH)
		sc.loopHdr = b
		sc.prove = true
		f, err := sc.boolExpr(inv.expr)
		if err != nil {
			fatalContract(fc.fn, "invariant", inv.expr, err)
		}
		g.oblige(obligation{name: fmt.Sprintf("inv-init:%s:loop%d:%s", fc.oblFn(), n, labelOr(inv.label, inv.expr)), kind: "inv-init", guard: fc.curR, cond: f, pos: fc.posOf(b)})
	}
	// havoc: objects existing at loop entry and not in the modifies set keep their contents (checked on the back edge);
	// objects in the modifies set and objects allocated since are unconstrained.
	effects, bases, _ := fc.loopEffects(b)
	if c != nil {
		for _, a := range c.loopAssign[n] {
			if a == "*" {
				g.loopHavocAll[b] = true // `loop N assigns *`: no frame; the invariants carry everything
			}
		}
	}
	if effects && g.loopHavocAll[b] {
		// the body calls code without a frame: nothing about the heap survives the loop except what the invariants say
		glEntry := g.bind("GL_e", heapSort("Int"), fc.curH["GL"])
		fc.havocHeap(fmt.Sprintf("loop%d", n), "", true)
		fc.loopGLEntry[b] = glEntry
	} else if effects {
		var mod []string
		for _, bv := range bases {
			v, ok := fc.vals[bv]
			if !ok {
				if _, isG := bv.(*ssa.Global); isG {
					v = fc.v(bv)
				} else {
					continue
				}
			}
			if v.k == kPtr || v.k == kSlice || (v.k == kOpaque && len(v.t) > 0) {
				mod = append(mod, v.t[0])
			}
		}
		if c != nil {
			for _, a := range c.loopAssign[n] {
				if a == "*" {
					continue
				}
				sc := fc.specCtxAt(entryMap, fc.curH)
				v, err := sc.term(a)
				if err != nil {
					fatalContract(fc.fn, "loop assigns", a, err)
				}
				switch v.k {
				case kPtr, kSlice, kOpaque:
					mod = append(mod, v.t[0])
				case kIface:
					mod = append(mod, v.t[1])
				}
			}
		}
		entryH := fc.curH.clone()
		entryAC := loopACe
		fresh := g.freshHeap(fmt.Sprintf("loop%d", n))
		keep := fmt.Sprintf("(< r %s)", entryAC)
		for _, m := range mod {
			keep = and(keep, fmt.Sprintf("(not (= r %s))", m))
		}
		for _, hk := range g.heapKinds() {
			en := g.bind(hk.name+"_e", heapSort(hk.sort), entryH[hk.name])
			entryH[hk.name] = en
			if hk.name == "GL" {
				// ghost lock state is loop-carried like everything else
			}
			hn := g.bind(hk.name+"_h", heapSort(hk.sort), fmt.Sprintf("(lambda ((r Int)) (ite %s (select %s r) (select %s r)))", keep, en, fresh[hk.name]))
			fc.curH[hk.name] = hn
		}
		ac := g.declare(g.freshName("AC"), "Int")
		g.assume(fmt.Sprintf("(>= %s %s)", ac, entryAC))
		if !g.lite {
			g.registerBaseHeap(fresh, ac)
		}
		fc.curAC = ac
		fc.loopEntryH[b] = entryH
		fc.loopMod[b] = mod
	}
	fc.loopHdrH[b] = fc.curH.clone()
	hmap := map[string]*val{}
	for _, in := range b.Instrs {
		phi, ok := in.(*ssa.Phi)
		if !ok {
			break
		}
		v := g.newVal(fc.pfx+phi.Name()+"_"+phi.Comment, phi.Type())
		fc.wfRefAssume(v, fc.curAC, fc.curR)
		fc.classAssume(v, phi.Type(), fc.curR)
		fc.vals[phi] = v
		if phi.Comment != "" {
			hmap[phi.Comment] = v
		}
	}
	for _, a := range loopCells {
		v := g.newVal(fc.pfx+"cell_"+a.Comment, a.Type().Underlying().(*types.Pointer).Elem())
		fc.wfRefAssume(v, fc.curAC, fc.curR)
		fc.classAssume(v, a.Type().Underlying().(*types.Pointer).Elem(), fc.curR)
		fc.cells[a] = v
		if a.Comment != "" {
			hmap[a.Comment] = v
		}
	}
	fc.loopCells[b] = loopCells
	fc.loopNames[b] = hmap
	// automatic invariant of range loops: -1 <= idx < len (or idx == -1)
	if phi, lim := rangeIndexPhi(b); phi != nil {
		iv := fc.vals[phi]
		lv := fc.v(lim)
		g.assume(fmt.Sprintf("(=> %s (and (bvsle %s %s) (or (= %s %s) (bvslt %s %s))))", fc.curR, bv(64, ^uint64(0)), iv.t[0], iv.t[0], bv(64, ^uint64(0)), iv.t[0], lv.t[0]))
	}
	// slices grown by append only: the variable designates its entry object or one allocated since (a theorem of append)
	for phi, init := range appendPhis(b) {
		pv, iv := fc.vals[phi], fc.v(init)
		if pv.k == kSlice && iv.k == kSlice {
			g.assume(fmt.Sprintf("(=> %s (or (= %s %s) (>= %s %s)))", fc.curR, pv.t[0], iv.t[0], pv.t[0], loopACe))
		}
	}
	// counting loops `for k := init; k < N; k++`: init <= k holds because k+1 cannot wrap below the guard k < N
	for _, cp := range countingPhis(b) {
		iv := fc.vals[cp.phi]
		init := fc.v(cp.init)
		if iv.k == kInt && init.k == kInt {
			op := "bvsle"
			if !iv.signed {
				op = "bvule"
			}
			g.assume(fmt.Sprintf("(=> %s (%s %s %s))", fc.curR, op, init.t[0], iv.t[0]))
		}
	}
	for _, inv := range invs {
		sc := fc.specCtxAt(hmap, fc.curH)
		sc.loopHdr = b
		sc.cguards = []string{fc.curR}
		f, err := sc.assumeSpec(inv.expr)
		if err != nil {
			fatalContract(fc.fn, "invariant", inv.expr, err)
		}
		g.assume(fmt.Sprintf("(=> %s %s)", fc.curR, f))
	}
}

func labelOr(label, expr string) string {
	if label != "" {
		return label
	}
	e := strings.Join(strings.Fields(expr), "")
	if len(e) > 48 {
		e = e[:48]
	}
	return e
}

func (fc *fnCtx) backEdge(b, s *ssa.BasicBlock, c *contract) {
	g := fc.g
	n := fc.loopOrd[s]
	bmap := map[string]*val{}
	for _, in := range s.Instrs {
		phi, ok := in.(*ssa.Phi)
		if !ok {
			break
		}
		for i, p := range s.Preds {
			if p == b && phi.Comment != "" {
				bmap[phi.Comment] = fc.v(phi.Edges[i])
			}
		}
	}
	for _, a := range fc.loopCells[s] {
		if a.Comment != "" {
			bmap[a.Comment] = fc.cells[a]
		}
	}
	e := fc.edgeCond(b, s)
	if eh, ok := fc.loopEntryH[s]; ok {
		var parts []string
		for _, hk := range g.heapKinds() {
			if fc.curH[hk.name] == fc.loopHdrH[s][hk.name] {
				continue
			}
			parts = append(parts, fmt.Sprintf("(= (select %s r) (select %s r))", fc.curH[hk.name], eh[hk.name]))
		}
		if len(parts) > 0 {
			keep := fmt.Sprintf("(< r %s)", fc.loopEntryAC[s])
			for _, m := range fc.loopMod[s] {
				keep = and(keep, fmt.Sprintf("(not (= r %s))", m))
			}
			g.oblige(obligation{name: fmt.Sprintf("frame:%s:loop%d", fc.oblFn(), n), kind: "frame", guard: e,
				cond: fmt.Sprintf("(forall ((r Int)) (=> %s %s))", keep, and(parts...)), pos: fc.posOf(s)})
		}
	}
	if gle, ok := fc.loopGLEntry[s]; ok && fc.curH["GL"] != gle && g.lite {
		// every iteration is lock-balanced (the header assumed the entry lock state)
		g.oblige(obligation{name: fmt.Sprintf("lock:%s:loop%d:balanced-iteration", fc.oblFn(), n), kind: "lock", guard: e,
			cond: fmt.Sprintf("(forall ((r Int)) (=> (and (< r %s) (not (= r %s))) (= (select %s r) (select %s r))))", fc.loopEntryAC[s], evRef, fc.curH["GL"], gle), pos: fc.posOf(s)})
	}
	// range loops: index stays in range automatically (no obligation needed: idx' = idx+1 < len is the loop condition)
	if c == nil {
		return
	}
	for _, inv := range c.invariants[n] {
		sc := fc.specCtxAt(bmap, fc.curH)
		sc.loopHdr = s
		sc.prove = true
		f, err := sc.boolExpr(inv.expr)
		if err != nil {
			fatalContract(fc.fn, "invariant", inv.expr, err)
		}
		g.oblige(obligation{name: fmt.Sprintf("inv-keep:%s:loop%d:%s", fc.oblFn(), n, labelOr(inv.label, inv.expr)), kind: "inv-keep", guard: e, cond: f, pos: fc.posOf(s)})
	}
	if d, ok := c.decreases[n]; ok {
		after, err := fc.specCtxAt(bmap, fc.curH).term(d)
		if err != nil {
			fatalContract(fc.fn, "decreases", d, err)
		}
		before, err := fc.specCtxAt(fc.loopNames[s], fc.loopHdrH[s]).term(d)
		if err != nil {
			fatalContract(fc.fn, "decreases", d, err)
		}
		w := before.w
		g.oblige(obligation{name: fmt.Sprintf("dec:%s:loop%d", fc.oblFn(), n), kind: "dec", guard: e,
			cond: fmt.Sprintf("(and (bvsle %s %s) (bvslt %s %s))", bv(w, 0), before.t[0], after.t[0], before.t[0]), pos: fc.posOf(s)})
	}
}

func (fc *fnCtx) posOf(b *ssa.BasicBlock) string {
	for _, in := range b.Instrs {
		if in.Pos() != token.NoPos {
			return fc.g.w.posString(in.Pos())
		}
	}
	return ""
}

func (w *world) posString(p token.Pos) string {
	if p == token.NoPos || w.fset == nil {
		return ""
	}
	ps := w.fset.Position(p)
	return fmt.Sprintf("%s:%d", strings.TrimPrefix(ps.Filename, repoDir+"/"), ps.Line)
}

// srcAt renders the source expression of the given class at a position ("index", "slice", "call", "sel", "star").
func (w *world) srcAt(pos token.Pos, class string) string {
	if pos == token.NoPos || w.fset == nil {
		return ""
	}
	tf := w.fset.File(pos)
	if tf == nil {
		return ""
	}
	f := w.files[tf.Name()]
	if f == nil {
		return ""
	}
	path, _ := astutil.PathEnclosingInterval(f, pos, pos)
	for _, n := range path {
		ok := false
		switch x := n.(type) {
		case *ast.IndexExpr:
			ok = class == "index" && x.Lbrack == pos
		case *ast.SliceExpr:
			ok = class == "slice" && x.Lbrack == pos
		case *ast.CallExpr:
			ok = class == "call" && x.Lparen == pos
		case *ast.SelectorExpr:
			ok = class == "sel" && x.Sel.Pos() == pos
		case *ast.StarExpr:
			ok = class == "star" && x.Star == pos
		case *ast.BinaryExpr:
			ok = class == "binop" && x.OpPos == pos
		case *ast.TypeAssertExpr:
			ok = class == "typeassert" && x.Lparen == pos
		case *ast.ReturnStmt:
			ok = class == "return" && x.Return == pos
		}
		if ok {
			var buf bytes.Buffer
			printer.Fprint(&buf, w.fset, n)
			s := strings.Join(strings.Fields(buf.String()), "")
			if class == "return" {
				s = strings.TrimPrefix(s, "return")
				if len(s) > 40 {
					s = s[:40]
				}
				return "return(" + s + ")"
			}
			if len(s) > 64 {
				s = s[:64]
			}
			return s
		}
	}
	return ""
}

// returnsLiteralNil: the return statement at pos has the identifier nil as its last result expression.
func (w *world) returnsLiteralNil(pos token.Pos) bool {
	if pos == token.NoPos || w.fset == nil {
		return false
	}
	tf := w.fset.File(pos)
	if tf == nil || w.files[tf.Name()] == nil {
		return false
	}
	path, _ := astutil.PathEnclosingInterval(w.files[tf.Name()], pos, pos)
	for _, n := range path {
		if r, ok := n.(*ast.ReturnStmt); ok && r.Return == pos && len(r.Results) > 0 {
			id, isId := r.Results[len(r.Results)-1].(*ast.Ident)
			return isId && id.Name == "nil"
		}
	}
	return false
}

// finishTop emits the obligations of every return site of the top-level function.
func (g *gen) finishTop(fc *fnCtx) {
	for i, rs := range fc.rets {
		if !g.lite {
			break // lock balance is decided at the typestate level (lite units)
		}
		for _, key := range sortedKeys(fc.mutexes) {
			m := fc.mutexes[key]
			g.oblige(obligation{name: fmt.Sprintf("lock:%s:balance:%s@%s", fnKeyQ(fc.fn), key, rs.lbl(i)), kind: "lock", guard: rs.reach,
				cond: fmt.Sprintf("(= %s %s)", sel(rs.h["GL"], m[0], m[1]), sel(fc.entryHeap["GL"], m[0], m[1]))})
		}
	}
	g.ifaceObligations(fc)
	c := g.topContract(fc.fn)
	if c == nil {
		return
	}
	for i, rs := range fc.rets {
		for k, e := range c.ensures {
			if len(g.onlyPats) > 0 {
				l0 := e.label
				if l0 == "" {
					l0 = fmt.Sprint(k + 1)
				}
				nm := fmt.Sprintf("post:%s:%s@%s", fnKeyQ(fc.fn), l0, rs.lbl(i))
				final := nm // the name oblige() would give it
				if n := g.occ[nm] + 1; n > 1 {
					final = fmt.Sprintf("%s#%d", nm, n)
				}
				keep := false
				for _, p := range g.onlyPats {
					keep = keep || globMatch(p, final)
				}
				if !keep {
					// outside the unit's scope: not even generated (saves the expansion of its spec functions); its
					// occurrence is still counted so that the `#N` suffixes of the generated ones do not depend on the filter
					g.occ[nm]++
					continue
				}
			}
			sc := fc.specCtxRet(rs)
			sc.prove = true
			f, err := sc.boolExpr(e.expr)
			if err != nil {
				fatalContract(fc.fn, "ensures", e.expr, err)
			}
			lbl := e.label
			if lbl == "" {
				lbl = fmt.Sprint(k + 1)
			}
			var pn []string
			for _, p := range fc.fn.Params {
				pn = append(pn, p.Name())
			}
			g.oblige(obligation{name: fmt.Sprintf("post:%s:%s@%s", fnKeyQ(fc.fn), lbl, rs.lbl(i)), kind: "post", guard: rs.reach, cond: f, show: sc.shows, goPost: e.expr, goPostParams: pn})
		}
		if c.hasAssigns && !c.assumedFrame && !g.lite {
			sc := fc.specCtxEntry()
			keep := fmt.Sprintf("(< r %s)", fc.entryAC)
			for _, a := range c.assigns {
				v, err := sc.term(a)
				if err != nil {
					fatalContract(fc.fn, "assigns", a, err)
				}
				switch v.k {
				case kPtr, kSlice, kOpaque:
					keep = and(keep, fmt.Sprintf("(not (= r %s))", v.t[0]))
				case kIface:
					keep = and(keep, fmt.Sprintf("(not (= r %s))", v.t[1]))
				}
			}
			var parts []string
			for _, hk := range g.heapKinds() {
				if hk.name == "GL" || rs.h[hk.name] == fc.entryHeap[hk.name] {
					continue
				}
				parts = append(parts, fmt.Sprintf("(= (select %s r) (select %s r))", rs.h[hk.name], fc.entryHeap[hk.name]))
			}
			if len(parts) > 0 {
				g.oblige(obligation{name: fmt.Sprintf("frame:%s@%s", fnKeyQ(fc.fn), rs.lbl(i)), kind: "frame", guard: rs.reach,
					cond: fmt.Sprintf("(forall ((r Int)) (=> %s %s))", keep, and(parts...))})
			}
		}
	}
}

// ---------------------------------------------------------------------------------------

func (fc *fnCtx) v(x ssa.Value) *val {
	if v, ok := fc.vals[x]; ok {
		return v
	}
	g := fc.g
	var v *val
	switch c := x.(type) {
	case *ssa.Const:
		v = fc.constVal(c)
	case *ssa.Global:
		v = &val{k: kPtr, ty: c.Type(), t: []string{g.w.globalRef(c.Pkg.Pkg.Path() + "." + c.Name()), z64}}
		fc.classAssume(v, c.Type(), "")
	case *ssa.Function:
		v = &val{k: kOpaque, ty: c.Type(), t: []string{g.w.globalRef("func:" + c.String())}}
	case *ssa.Builtin:
		v = &val{k: kOpaque, t: []string{"0"}}
	default:
		panic(fmt.Sprintf("value used before definition: %s (%T) in %s", x.Name(), x, fc.fn))
	}
	fc.vals[x] = v
	return v
}

var globalIDs = map[string]int{}

// globalRef: stable pseudo reference (negative id) for package-level variables and functions.
func (w *world) globalRef(key string) string {
	id, ok := globalIDs[key]
	if !ok {
		id = len(globalIDs) + 1
		globalIDs[key] = id
	}
	return fmt.Sprintf("(- %d)", id)
}

var typeTags = map[string]int{}

func typeTag(t types.Type) int {
	key := t.String()
	if id, ok := typeTags[key]; ok {
		return id
	}
	id := 1000 + len(typeTags)
	typeTags[key] = id
	return id
}

func (fc *fnCtx) constVal(c *ssa.Const) *val {
	t := c.Type()
	if w, s, ok := intW(t); ok {
		var n uint64
		if c.Value != nil {
			if i, ok := constant.Int64Val(constant.ToInt(c.Value)); ok {
				n = uint64(i)
			} else if u, ok := constant.Uint64Val(constant.ToInt(c.Value)); ok {
				n = u
			}
		}
		return &val{k: kInt, w: w, signed: s, ty: t, t: []string{bv(w, n)}}
	}
	if w, ok := isFloat(t); ok {
		var bits uint64
		if c.Value != nil {
			f, _ := constant.Float64Val(constant.ToFloat(c.Value))
			if w == 64 {
				bits = float64bits(f)
			} else {
				bits = uint64(float32bits(float32(f)))
			}
		}
		return &val{k: kFloat, w: w, ty: t, t: []string{bv(w, bits)}}
	}
	switch u := t.Underlying().(type) {
	case *types.Basic:
		if u.Info()&types.IsBoolean != 0 {
			return &val{k: kBool, ty: t, t: []string{fmt.Sprint(constant.BoolVal(c.Value))}}
		}
		if u.Info()&types.IsString != 0 {
			s := constant.StringVal(c.Value)
			return fc.g.stringConst(s, t)
		}
	}
	return fc.g.zeroVal(t)
}

// stringConst: constant strings live in pseudo objects (refs below -1000000, never havocked) whose bytes are asserted when short.
func (g *gen) stringConst(s string, t types.Type) *val {
	ref := g.w.strRef(s)
	ln := bv(64, uint64(len(s)))
	v := &val{k: kSlice, constLen: len(s), ty: t, t: []string{ref, z64, ln, ln}}
	if !g.lite && len(s) > 0 && len(s) <= 64 && !g.specDefs["str:"+s] && g.entryHB != "" {
		g.specDefs["str:"+s] = true
		var parts []string
		for i := 0; i < len(s); i++ {
			parts = append(parts, fmt.Sprintf("(= (select (select %s %s) %s) %s)", g.entryHB, ref, bv(64, uint64(i)), bv(8, uint64(s[i]))))
		}
		g.assume(and(parts...))
	}
	return v
}

var strIDs = map[string]int{}

const strRefBase = 1000000

func (w *world) strRef(s string) string {
	id, ok := strIDs[s]
	if !ok {
		id = len(strIDs) + 1
		strIDs[s] = id
	}
	return fmt.Sprintf("(- %d)", strRefBase+id)
}

// checkGuarded is the hook for `guarded ... by` declarations (lock discipline); filled in by lock.go.
func (fc *fnCtx) checkGuarded(addr ssa.Value, write bool, pos token.Pos) {}

// ifaceObligations: a method that implements an interface method under contract must satisfy that contract
// (behavioural subtyping): one obligation per ensures clause and return site.
func (g *gen) ifaceObligations(fc *fnCtx) {
	fn := fc.fn
	recv := fn.Signature.Recv()
	if recv == nil || fn.Pkg == nil {
		return
	}
	cf := g.w.contractsFor(fn.Pkg.Pkg.Path())
	for _, ikey := range sortedKeys(cf.ifaces) {
		c := cf.ifaces[ikey]
		parts := strings.SplitN(ikey, ".", 2)
		if len(parts) != 2 || parts[1] != fn.Name() {
			continue
		}
		tn, ok := fn.Pkg.Pkg.Scope().Lookup(parts[0]).(*types.TypeName)
		if !ok {
			continue
		}
		it, ok := tn.Type().Underlying().(*types.Interface)
		if !ok || !types.Implements(recv.Type(), it) {
			continue
		}
		var msig *types.Signature
		for i := 0; i < it.NumMethods(); i++ {
			if it.Method(i).Name() == fn.Name() {
				msig = it.Method(i).Type().(*types.Signature)
			}
		}
		if msig == nil {
			continue
		}
		env := map[string]*val{"self": fc.vals[fn.Params[0]]}
		for i := 0; i < msig.Params().Len() && i+1 < len(fn.Params); i++ {
			env[msig.Params().At(i).Name()] = fc.vals[fn.Params[i+1]]
		}
		shell := g.w.prog.NewFunction(fn.Name(), msig, "iface contract")
		for i, rs := range fc.rets {
			for k, e := range c.ensures {
				sc := &specCtx{fc: fc, g: g, fn: shell, args: env, h: rs.h, oldH: fc.entryHeap, results: rs.vals, guard: rs.reach, ifacePkg: fn.Pkg.Pkg, prove: true}
				f, err := sc.boolExpr(e.expr)
				if err != nil {
					panic(fmt.Sprintf("iface contract %s ensures %q: %v", ikey, e.expr, err))
				}
				lbl := e.label
				if lbl == "" {
					lbl = fmt.Sprint(k + 1)
				}
				pn := []string{"self"}
				for j := 0; j < msig.Params().Len(); j++ {
					pn = append(pn, msig.Params().At(j).Name())
				}
				g.oblige(obligation{name: fmt.Sprintf("iface:%s<-%s:%s@%s", ikey, fnKeyQ(fn), lbl, rs.lbl(i)), kind: "iface", guard: rs.reach, cond: f, goPost: e.expr, goPostParams: pn})
			}
		}
	}
}

func loopTouchesLocks(h *ssa.BasicBlock) bool {
	for b := range loopBlocks(h) {
		for _, in := range b.Instrs {
			var cc *ssa.CallCommon
			switch x := in.(type) {
			case *ssa.Call:
				cc = &x.Call
			case *ssa.Defer:
				cc = &x.Call
			}
			if cc == nil || cc.IsInvoke() {
				continue
			}
			if callee, ok := cc.Value.(*ssa.Function); ok {
				n := callee.String()
				if strings.HasPrefix(n, "(*sync.Mutex).") || strings.HasPrefix(n, "(*sync.RWMutex).") || (callee.Blocks != nil && touchesLocks(callee, 4, map[*ssa.Function]bool{})) {
					return true
				}
			}
		}
	}
	return false
}

type countingPhi struct {
	phi  *ssa.Phi
	init ssa.Value
}

// countingPhis recognises loop variables of the form  k := init; k < N; k++  (the header ends in `if k < N`,
// the only other definition of k is k+1 on the back edge).
func countingPhis(h *ssa.BasicBlock) []countingPhi {
	ifi, ok := h.Instrs[len(h.Instrs)-1].(*ssa.If)
	if !ok {
		return nil
	}
	cmp, ok := ifi.Cond.(*ssa.BinOp)
	if !ok || cmp.Block() != h {
		return nil
	}
	var phi *ssa.Phi
	switch cmp.Op {
	case token.LSS:
		phi, _ = cmp.X.(*ssa.Phi)
	case token.GTR:
		phi, _ = cmp.Y.(*ssa.Phi)
	}
	if phi == nil || phi.Block() != h || len(phi.Edges) != 2 {
		return nil
	}
	// the body must be the true branch
	body := loopBlocks(h)
	if len(h.Succs) != 2 || !body[h.Succs[0]] || body[h.Succs[1]] {
		return nil
	}
	var init ssa.Value
	okStep := false
	for i, p := range h.Preds {
		e := phi.Edges[i]
		if isBackEdge(p, h) {
			if bo, ok := e.(*ssa.BinOp); ok && bo.Op == token.ADD && bo.X == phi {
				if c, ok := bo.Y.(*ssa.Const); ok && c.Value != nil && c.Int64() == 1 {
					okStep = true
				}
			}
		} else {
			init = e
		}
	}
	if !okStep || init == nil {
		return nil
	}
	return []countingPhi{{phi, init}}
}

// appendPhis: loop-carried slice variables whose only updates are x = append(x, ...).
func appendPhis(h *ssa.BasicBlock) map[*ssa.Phi]ssa.Value {
	out := map[*ssa.Phi]ssa.Value{}
	body := loopBlocks(h)
	for _, in := range h.Instrs {
		phi, ok := in.(*ssa.Phi)
		if !ok {
			break
		}
		if _, isSlice := phi.Type().Underlying().(*types.Slice); !isSlice {
			continue
		}
		var init ssa.Value
		good := true
		var isAppendOf func(v ssa.Value, depth int) bool
		isAppendOf = func(v ssa.Value, depth int) bool {
			if v == phi {
				return true
			}
			if depth > 8 {
				return false
			}
			switch x := v.(type) {
			case *ssa.Call:
				if bi, ok := x.Call.Value.(*ssa.Builtin); ok && bi.Name() == "append" {
					return isAppendOf(x.Call.Args[0], depth+1)
				}
			case *ssa.Phi:
				if !body[x.Block()] {
					return false
				}
				for _, e := range x.Edges {
					if !isAppendOf(e, depth+1) {
						return false
					}
				}
				return true
			}
			return false
		}
		for i, p := range h.Preds {
			if isBackEdge(p, h) {
				if !isAppendOf(phi.Edges[i], 0) {
					good = false
				}
			} else {
				init = phi.Edges[i]
			}
		}
		if good && init != nil {
			out[phi] = init
		}
	}
	return out
}

func (rs retSite) lbl(i int) string {
	if rs.label != "" {
		return rs.label
	}
	return fmt.Sprintf("ret%d", i+1)
}

func byteSliceType(t types.Type) bool {
	if t == nil {
		return true // unknown: be permissive
	}
	switch u := t.Underlying().(type) {
	case *types.Basic:
		return u.Info()&types.IsString != 0
	case *types.Slice:
		w, _, ok := intW(u.Elem())
		return ok && w == 8
	}
	return false
}

// promotable: a local that never escapes and is only read and written as a whole is kept as a value per program point
// (like a register) instead of a heap cell; this covers the named results of functions with defer.
func (fc *fnCtx) promotable(a *ssa.Alloc) bool {
	if fc.promo == nil {
		fc.promo = map[*ssa.Alloc]bool{}
	}
	if r, ok := fc.promo[a]; ok {
		return r
	}
	ok := !a.Heap && a.Referrers() != nil
	if ok {
		for _, ref := range *a.Referrers() {
			switch x := ref.(type) {
			case *ssa.Store:
				if x.Addr != a || x.Val == a {
					ok = false
				}
			case *ssa.UnOp:
				if x.Op != token.MUL {
					ok = false
				}
			case *ssa.DebugRef:
			default:
				ok = false
			}
		}
	}
	fc.promo[a] = ok
	return ok
}
