#!/bin/bash
# usage: check.sh <property id> [quick|thorough]
# Rebuilds the VC generator if needed, loads /repo's current working tree with -tags verif and checks one property.
set -u
cd /verif
. /verif/env.sh
tier=${2:-${VERIF_TIER:-quick}}
if [ ! -x bin/govc ] || [ -n "$(find govc -newer bin/govc -name '*.go' 2>/dev/null | head -1)" ]; then
  (cd govc && go build -o ../bin/govc .) || { echo "cannot build govc"; exit 2; }
fi
exec ./bin/govc check -prop "$1" -tier "$tier"
