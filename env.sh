# sourced by every /verif script: offline Go toolchain that builds /repo (go1.25.0 from the module cache)
export PATH=/root/go/pkg/mod/golang.org/toolchain@v0.0.1-go1.25.0.linux-amd64/bin:$PATH
export GOTOOLCHAIN=local GOFLAGS=-mod=mod GOPROXY=off GOSUMDB=off CGO_ENABLED=0
