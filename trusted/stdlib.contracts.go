// Trusted contracts of library functions (assumed, never verified; each use is listed in the evidence).
// Same syntax as the zz_verif_contracts.go files; keys are go/ssa function names.
package trusted

//@ trusted func (*bufio.Reader).ReadBytes
//@   ensures nonempty: r1 == nil ==> len(r0) >= 1
//@   ensures delim: r1 == nil ==> r0[len(r0)-1] == delim

//@ trusted func (*bufio.Reader).Read
//@   ensures count: 0 <= r0 && r0 <= len(p)
//@   assigns p, self

//@ trusted func (*bufio.Reader).ReadByte
//@   assigns self

//@ trusted func bufio.NewReaderSize
//@   ensures nonnil: r0 != nil

//@ trusted func bufio.NewReader
//@   ensures nonnil: r0 != nil
//@   assigns nothing

//@ trusted func bytes.NewBuffer
//@   ensures nonnil: r0 != nil
//@   assigns nothing

//@ trusted func bytes.NewReader
//@   ensures nonnil: r0 != nil
//@   assigns nothing

//@ trusted func io.ReadFull
//@   ensures count: 0 <= r0 && r0 <= len(buf) && (r1 == nil ==> r0 == len(buf))
//@   assigns buf

//@ trusted func bytes.Compare
//@   pure
//@   ensures range: -1 <= r0 && r0 <= 1

// ---- C17 (con-c17): file system calls used by singleapp / multiapp. Result ranges only (io.Writer / io.ReaderAt /
// io.Seeker documentation); file contents are not modelled. None of them writes Go memory except the read buffer.

// `short`: an error means a short write (os.File.Write -> internal/poll.FD.Write returns as soon as nn == len(p) with
// the error of the last syscall, which is nil whenever that syscall wrote bytes). singleapp.flush relies on it: without
// retryable sync a buffer that was written completely together with an error would stay "full and flushed" forever.
//@ trusted func (*os.File).Write
//@   ensures count: 0 <= r0 && r0 <= len(b)
//@   ensures full: r1 == nil ==> r0 == len(b)
//@   ensures short: r1 != nil ==> r0 < len(b)
//@   assigns nothing

//@ trusted func (*os.File).ReadAt
//@   ensures count: 0 <= r0 && r0 <= len(b)
//@   ensures full: r1 == nil ==> r0 == len(b)
//@   assigns b

//@ trusted func (*os.File).Seek
//@   ensures pos: r1 == nil ==> r0 >= 0
//@   assigns nothing

//@ trusted func (*os.File).Sync
//@   assigns nothing

//@ trusted func (*os.File).Close
//@   assigns nothing

//@ trusted func os.Remove
//@   assigns nothing

//@ trusted func github.com/codenotary/immudb/embedded/appendable/fileutils.SyncDir
//@   assigns nothing

//@ trusted func github.com/codenotary/immudb/embedded/appendable/fileutils.Fdatasync
//@   assigns nothing

//@ trusted func (time.Time).UnixNano
//@   pure

//@ trusted func (time.Time).Unix
//@   pure

//@ trusted func (time.Time).Nanosecond
//@   pure
//@   ensures range: 0 <= r0 && r0 < 1000000000

//@ trusted func encoding/json.Unmarshal
//@   assigns v

//@ trusted func github.com/google/uuid.FromBytes
//@   ensures ok: len(b) == 16 ==> r1 == nil
//@   ensures val: len(b) == 16 ==> forall(k, 0, 16, r0[k] == b[k])
//@   assigns nothing

//@ trusted func (*bytes.Buffer).Write
//@   ensures all: r0 == len(p) && r1 == nil
//@   assigns self

//@ trusted func (*bytes.Buffer).Read
//@   ensures count: 0 <= r0 && r0 <= len(p)
//@   assigns p, self

//@ trusted func os.Stat
//@   ensures info: r1 == nil ==> r0 != nil
//@   assigns nothing

//@ trusted func os.Mkdir
//@   assigns nothing

//@ trusted func os.OpenFile
//@   ensures file: r1 == nil ==> r0 != nil
//@   assigns nothing

//@ trusted func google.golang.org/grpc/status.Error
//@   ensures nonnil: r0 != nil
//@   assigns nothing

//@ trusted func google.golang.org/grpc/status.Errorf
//@   ensures nonnil: r0 != nil
//@   assigns nothing

// math/bits.Len64: minimum number of bits to represent x (documentation); the clause is its exact definition.
//@ trusted func math/bits.Len64
//@   pure
//@   ensures def: (x == 0 ==> r0 == 0) && (x != 0 ==> 1 <= r0 && r0 <= 64 && x>>uint(r0-1) == 1)

// sync.Pool: Get hands out an arbitrary value (possibly built by the pool's New function, which in this module only
// allocates), Put retains its argument; neither writes memory the caller can observe.
//@ trusted func (*sync.Pool).Get
//@   assigns internal
//@ trusted func (*sync.Pool).Put
//@   assigns internal

// math/bits.Len (con-c08g, mirrors Len64: on the 64-bit targets of this project uint is 64 bits wide): minimum number of
// bits to represent x (documentation); the clause is its exact definition.
//@ trusted func math/bits.Len
//@   pure
//@   ensures def: (x == 0 ==> r0 == 0) && (x != 0 ==> 1 <= r0 && r0 <= 64 && x>>uint(r0-1) == 1)
