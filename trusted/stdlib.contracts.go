// Trusted contracts of library functions (assumed, never verified; each use is listed in the evidence).
// Same syntax as the zz_verif_contracts.go files; keys are go/ssa function names.
package trusted

//@ trusted func (*bufio.Reader).ReadBytes
//@   ensures nonempty: r1 == nil ==> len(r0) >= 1
//@   ensures delim: r1 == nil ==> r0[len(r0)-1] == delim

//@ trusted func (*bufio.Reader).Read
//@   ensures count: 0 <= r0 && r0 <= len(p)
//@   assigns p, self

//@ trusted func (*bufio.Reader).ReadByte
//@   assigns self

//@ trusted func bufio.NewReaderSize
//@   ensures nonnil: r0 != nil

//@ trusted func bufio.NewReader
//@   ensures nonnil: r0 != nil

//@ trusted func bytes.NewBuffer
//@   ensures nonnil: r0 != nil
//@   assigns nothing

//@ trusted func bytes.NewReader
//@   ensures nonnil: r0 != nil
//@   assigns nothing

//@ trusted func io.ReadFull
//@   ensures count: 0 <= r0 && r0 <= len(buf) && (r1 == nil ==> r0 == len(buf))
//@   assigns buf
