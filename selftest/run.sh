#!/bin/bash
# Engine self-test: every function of selftest/mod/embedded/selftest has a known verdict (EXPECT pass / fail <name>).
# usage: run.sh   (exit 0 iff all verdicts are as expected)
cd /verif; . /verif/env.sh
M=/verif/selftest/mod
bad=0
check() { # mode line
  mode=$1; fn=$2; verdict=$3; pat=$4
  flags=""; [ "$mode" = lite ] && flags="-lite"
  out=$(GOVC_REPO=$M timeout 600 ${GOVC_BIN:-./bin/govc} fn $flags -timeout 10 -out /tmp/govc-selftest -pkg ./embedded/selftest "$fn" 2>&1)
  fails=$(echo "$out" | grep -c "^  FAIL")
  if [ "$verdict" = pass ]; then
    if [ "$fails" -ne 0 ] || ! echo "$out" | grep -q "obligations, 0 failed"; then echo "SELFTEST-BAD $fn: expected pass"; echo "$out" | grep -E "FAIL|engine" | head -5; bad=$((bad+1)); else echo "ok   $fn (pass)"; fi
  else
    if echo "$out" | grep "^  FAIL" | grep -q -- "$pat"; then echo "ok   $fn (fails $pat)"; else echo "SELFTEST-BAD $fn: expected a failing obligation matching '$pat'"; echo "$out" | tail -3; bad=$((bad+1)); fi
  fi
}
while read -r kind verdict pat fn; do
  case $kind in
    EXPECT) check full "$fn" "$verdict" "$pat";;
    EXPECT-LITE) check lite "$fn" "$verdict" "$pat";;
  esac
done < <(python3 - "$M" <<'PY'
import re,sys,glob
for f in sorted(glob.glob(sys.argv[1]+'/embedded/selftest/*.go')):
    lines=open(f).read().split('\n')
    for i,l in enumerate(lines):
        m=re.match(r'// (EXPECT(?:-LITE)?) (pass|fail)\s*(\S*)',l)
        if not m: continue
        j=i+1
        while j<len(lines) and not lines[j].startswith('func'): j+=1
        fm=re.match(r'func (?:\([^)]*\) )?([A-Za-z0-9_]+)',lines[j])
        print(m.group(1),m.group(2),m.group(3) or '-',fm.group(1))
PY
)
# the replay machinery: counter-models of loop-free functions must replay on the real code
rp=$(GOVC_REPO=$M timeout 600 ${GOVC_BIN:-./bin/govc} fn -replay -timeout 10 -out /tmp/govc-selftest -pkg ./embedded/selftest idxOOB divZero maxWrong 2>&1 | grep -c "confirmed=true")
if [ "$rp" -ge 3 ]; then echo "ok   replays confirmed ($rp)"; else echo "SELFTEST-BAD replay: only $rp of the expected counter-models replayed"; bad=$((bad+1)); fi
rm -rf /tmp/govc-selftest
echo "selftest: $bad unexpected verdicts"
[ $bad -eq 0 ]
