// Package selftest: small functions with KNOWN verdicts, used to test the govc engine itself
// (/verif/selftest/run.sh). Each function carries `// EXPECT pass` or `// EXPECT fail <substring of an obligation name>`.
package selftest

import (
	"bufio"
	"encoding/binary"
	"errors"
)

var ErrBad = errors.New("bad")

// EXPECT fail safe:selftest.idxOOB:index
func idxOOB(b []byte, i int) byte { return b[i] }

// EXPECT pass
func idxGuarded(b []byte, i int) byte {
	if i < 0 || i >= len(b) {
		return 0
	}
	return b[i]
}

// a later call's postcondition (0 <= n <= len(p)) must not discharge the earlier make
// EXPECT fail makeslice
func laterAssumption(r *bufio.Reader, n int) int {
	p := make([]byte, n)
	k, _ := r.Read(p)
	return k
}

// EXPECT fail safe:selftest.be32Short:index
func be32Short(b []byte) uint32 {
	if len(b) < 3 {
		return 0
	}
	return binary.BigEndian.Uint32(b)
}

// EXPECT pass
func be32OK(b []byte) uint32 {
	if len(b) < 4 {
		return 0
	}
	return binary.BigEndian.Uint32(b)
}

// EXPECT fail nilmap
func nilMapWrite(m map[int]int) { m[1] = 2 }

// EXPECT fail div0
func divZero(a, b uint32) uint32 { return a / b }

// EXPECT pass
func sumLoop(b []byte) int {
	s := 0
	for i := 0; i < len(b); i++ {
		s += int(b[i])
	}
	return s
}

// off-by-one loop bound
// EXPECT fail safe:selftest.loopOOB:index
func loopOOB(b []byte) int {
	s := 0
	for i := 0; i <= len(b); i++ {
		s += int(b[i])
	}
	return s
}

// EXPECT pass
func parseLoop(b []byte) error {
	i := 0
	for {
		if i == len(b) {
			break
		}
		if len(b[i:]) < 2 {
			return ErrBad
		}
		n := int(b[i])
		i += 2
		if len(b)-i < n {
			return ErrBad
		}
		i += n
	}
	return nil
}

// the length check is missing: i can run past len(b)
// EXPECT fail inv-keep
func parseLoopBad(b []byte) error {
	i := 0
	for {
		if i == len(b) {
			break
		}
		if len(b[i:]) < 2 {
			return ErrBad
		}
		n := int(b[i])
		i += 2
		i += n
	}
	return nil
}

// EXPECT pass
func maxOf(a, b int) int {
	if a > b {
		return a
	}
	return b
}

// wrong postcondition (claims min)
// EXPECT fail post:selftest.maxWrong:isMin
func maxWrong(a, b int) int {
	if a > b {
		return a
	}
	return b
}

type pair struct {
	x, y int
}

type other struct {
	z int
}

// two pointers of the same type may alias: the postcondition is false when p == q
// EXPECT fail post:selftest.aliasSame:keeps
func aliasSame(p, q *pair) {
	p.x = 1
	q.x = 2
}

// pointers to unrelated struct types cannot alias
// EXPECT pass
func aliasOther(p *pair, q *other) {
	p.x = 1
	q.z = 2
}

// EXPECT fail frame:selftest.frameBad
func frameBad(p, q *pair) { q.y = 7 }

// EXPECT pass
func frameOK(p, q *pair) { p.y = 7 }

func spec_sum(b []byte, k int) int {
	if k == 0 {
		return 0
	}
	return spec_sum(b, k-1) + int(b[k-1])
}

// EXPECT pass
func sumSpec(b []byte) int {
	s := 0
	for i := 0; i < len(b); i++ {
		s += int(b[i])
	}
	return s
}

// the loop skips element 0: the fold invariant cannot be established/kept
// EXPECT fail inv-init
func sumSpecBad(b []byte) int {
	s := 0
	for i := 1; i < len(b); i++ {
		s += int(b[i])
	}
	return s
}

// a universally quantified goal that is false must fail
// EXPECT fail post:selftest.fillBad:all
func fillBad(b []byte) {
	for i := 0; i+1 < len(b); i++ {
		b[i] = 7
	}
}

// EXPECT pass
func fillOK(b []byte) {
	for i := 0; i < len(b); i++ {
		b[i] = 7
	}
}

// named result through defer: the result cell must carry the value set last
// EXPECT pass
func namedResult(b []byte) (n int, err error) {
	defer func() {}()
	if len(b) == 0 {
		err = ErrBad
		return
	}
	n = len(b)
	return
}

// EXPECT fail post:selftest.namedResultBad:len
func namedResultBad(b []byte) (n int, err error) {
	defer func() {}()
	n = len(b) + 1
	return
}

// two allocations of different types on different branches: not vacuous, and the false postcondition fails
// EXPECT fail post:selftest.branches:never
func branches(c bool) interface{} {
	if c {
		return &pair{}
	}
	return &other{}
}

// ring arithmetic with abstracted modulo
// EXPECT pass
func ringNext(pos, n int) int { return (pos + 1) % n }

// EXPECT fail post:selftest.ringNextBad:lt
func ringNextBad(pos, n int) int { return (pos + 2) % n }

// callee precondition violated at the call site
// EXPECT fail pre:selftest.needsPositive
func callsNeedsPositive(x int) int { return needsPositive(x) }

func needsPositive(x int) int { return 100 / x }

// EXPECT pass
func callsNeedsPositiveOK(x int) int {
	if x <= 0 {
		return 0
	}
	return needsPositive(x)
}

// unknown callee wipes the heap: a fact about *p established before the call is lost
// EXPECT fail post:selftest.havocLost:kept
func havocLost(p *pair, f func(*pair)) {
	p.x = 5
	f(p)
}

// lock balance (typestate level): one path leaks the mutex
type locked struct {
	mu   mutex
	data int
}
