package selftest

// Go maps as heap objects (engine: maps.go)

// EXPECT pass
func mapSetGet(k, k2 byte, v int64) (r int64, ok bool, r2 int64, ok2 bool) {
	m := make(map[byte]int64)
	m[k] = v
	r, ok = m[k]
	r2, ok2 = m[k2]
	return
}

// EXPECT fail post:selftest.mapSetGetBad:other
func mapSetGetBad(k, k2 byte, v int64) (r2 int64, ok2 bool) {
	m := make(map[byte]int64)
	m[k] = v
	r2, ok2 = m[k2]
	return
}

// EXPECT pass
func mapNilRead(k byte) int64 {
	var m map[byte]int64
	return m[k]
}

// EXPECT pass
func mapDelete(m map[uint64]*locked, k uint64) bool {
	delete(m, k)
	_, ok := m[k]
	return ok
}

// EXPECT fail post:selftest.mapOverwrite:kept
func mapOverwrite(m map[byte]int64, k byte) {
	if m == nil {
		return
	}
	m[k] = 7
}

// EXPECT pass
func mapOtherKeysKept(m map[byte]int64, k byte) {
	if m == nil {
		return
	}
	m[k] = 7
}

var opaqueWriter func(m map[byte]int64)

// EXPECT fail post:selftest.mapHavocByCall:kept
func mapHavocByCall(m map[byte]int64, k byte) {
	if m == nil {
		return
	}
	m[k] = 7
	opaqueWriter(m)
}

// EXPECT pass
func mapCopySubset(src map[string]int64) map[string]int64 {
	dst := make(map[string]int64)
	for k, v := range src {
		dst[k] = v
	}
	return dst
}

// EXPECT fail inv-keep:selftest.mapCopyWrongSource
func mapCopyWrongSource(src, other map[string]int64) map[string]int64 {
	dst := make(map[string]int64)
	for k, v := range other {
		dst[k] = v
	}
	return dst
}

// EXPECT fail post:selftest.mapStringKeysMayCollide:absent
func mapStringKeysMayCollide(a, b string) bool {
	m := make(map[string]int64)
	m[a] = 1
	_, ok := m[b]
	return ok
}

// EXPECT pass
func mapMinPerKey(m map[byte]int64, id byte, off int64) {
	if m == nil {
		return
	}
	if val, ok := m[id]; ok {
		if off < val {
			m[id] = off
		}
	}
}

// EXPECT fail post:selftest.mapMinPerKeyBad:le
func mapMinPerKeyBad(m map[byte]int64, id byte, off int64) {
	if m == nil {
		return
	}
	if val, ok := m[id]; ok {
		if off > val {
			m[id] = off
		}
	}
}

// EXPECT pass
func mapClear(m map[byte]int64, k byte) bool {
	clear(m)
	_, ok := m[k]
	return ok
}

type rowsT struct{ rows [][]byte }

// a byte-slice load UNDER a quantifier (no side assumptions may be generated there: regression for a generator bug that
// emitted `(=> #skip ...)` into the query)
// EXPECT pass
func quantNested(x *rowsT, i int) int {
	if i < 0 || i >= len(x.rows) {
		return 0
	}
	return len(x.rows[i])
}

// EXPECT pass
func quantNestedLoop(x *rowsT, b []byte) int {
	n := 0
	for i := 0; i < len(b); i++ {
		b[i] = 1
		n++
	}
	return n
}
