//go:build verif

package selftest

//@ func maxOf
//@   ensures isMax: r0 == max(a, b) && r0 >= a && r0 >= b

//@ func maxWrong
//@   ensures isMin: r0 == min(a, b)

//@ func aliasSame
//@   requires p != nil && q != nil
//@   ensures keeps: p.x == 1

//@ func aliasOther
//@   requires p != nil && q != nil
//@   ensures keeps: p.x == 1 && q.z == 2

//@ func frameBad
//@   requires p != nil && q != nil
//@   assigns p

//@ func frameOK
//@   requires p != nil && q != nil
//@   assigns p

//@ func sumSpec
//@   ensures fold: r0 == spec_sum(b, len(b))
//@   loop 1 invariant fold: 0 <= i && i <= len(b) && s == spec_sum(b, i)
//@   loop 1 decreases len(b) - i

//@ func sumSpecBad
//@   ensures fold: r0 == spec_sum(b, len(b))
//@   loop 1 invariant fold: 0 <= i && i <= len(b) && s == spec_sum(b, i)

//@ func fillBad
//@   ensures all: forall(k, 0, len(b), b[k] == 7)
//@   loop 1 invariant done: 0 <= i && forall(k, 0, i, b[k] == 7)

//@ func fillOK
//@   ensures all: forall(k, 0, len(b), b[k] == 7)
//@   loop 1 invariant done: 0 <= i && i <= len(b) && forall(k, 0, i, b[k] == 7)

//@ func namedResult
//@   ensures len: err == nil ==> n == len(b) && n > 0
//@   ensures bad: err != nil ==> len(b) == 0

//@ func namedResultBad
//@   ensures len: n == len(b)

//@ func branches
//@   ensures never: r0 == nil

//@ func ringNext
//@   divmod abstract
//@   requires n > 0 && 0 <= pos && pos < n
//@   ensures lt: 0 <= r0 && r0 < n
//@   ensures step: (pos+1 < n ==> r0 == pos+1) && (pos+1 == n ==> r0 == 0)

//@ func ringNextBad
//@   divmod abstract
//@   requires n > 0 && 0 <= pos && pos < n
//@   ensures lt: 0 <= r0 && r0 < n && (pos+1 < n ==> r0 == pos+1)

//@ func needsPositive
//@   requires x > 0

//@ func havocLost
//@   requires f != nil
//@   ensures kept: p.x == 5

//@ func parseLoop
//@   loop 1 invariant range: 0 <= i && i <= len(b)
//@   loop 1 decreases len(b) - i

//@ func parseLoopBad
//@   loop 1 invariant range: 0 <= i && i <= len(b)

//@ func orderOK
//@   order tx_flushed_before_sync: s.tx.Flush before s.tx.Sync
//@   order tx_synced_before_append: s.tx.Sync before s.cl.Append
//@   order cl_flushed_before_sync: s.cl.Flush before s.cl.Sync
//@   order cl_synced_before_frontier: s.cl.Sync before store s.frontier

//@ func orderCondSync
//@   order tx_synced_before_append: s.tx.Sync before s.cl.Append

//@ func orderIgnoredErr
//@   order tx_synced_before_append: s.tx.Sync before s.cl.Append

//@ func orderSwapped
//@   order tx_synced_before_append: s.tx.Sync before s.cl.Append

//@ func orderFrontierEarly
//@   order cl_synced_before_frontier: s.cl.Sync before store s.frontier

//@ func orderAckWithoutSync
//@   order synced_before_ok: s.tx.Sync before return nil

//@ func orderAckOK
//@   order synced_before_ok: s.tx.Sync before return nil

//@ func orderNoEvent
//@   order tx_synced_before_append: s.tx.Sync before s.cl.Append

//@ func staleContract
//@   loop 1 invariant gone: removedVariable >= 0

//@ func localInPost
//@   requires h != nil
//@   ensures stored: r0 == nil ==> h.x == last

//@ func localInPostBad
//@   requires h != nil
//@   ensures stored: r0 == nil ==> h.x == last

//@ func lenBits
//@   requires j >= 2
//@   ensures topbit: r0 >= 1 && r0 <= 64 && (j-1)&(uint64(1)<<uint(r0-1)) != 0

//@ func orderDeferredOK
//@   order cl_flushed_before_sync: s.cl.Flush before s.cl.Sync

//@ func orderDeferredBad
//@   order cl_flushed_before_sync: s.cl.Flush before s.cl.Sync

// events of package-level functions with a boolean verdict, branch events, alternatives, `return ok`
//@ func verdictOK
//@   order proof_before_frontier: selftest.checkProof before store s.frontier
//@   order sync_or_first_before_frontier: s.tx.Sync | else(t.id > 0) before store s.frontier
//@   order flush_or_nokey_before_frontier: s.cl.Flush | else(t.key != nil) before store s.frontier
//@   order frontier_before_ok: store s.frontier before return ok

//@ func verdictIgnored
//@   order proof_before_frontier: selftest.checkProof before store s.frontier

//@ func branchOffByOne
//@   order sync_or_first_before_frontier: s.tx.Sync | else(t.id > 0) before store s.frontier

//@ func okWithoutFrontier
//@   order frontier_before_ok: store s.frontier before return ok

// ---- maps
//@ func mapSetGet
//@   ensures same: ok && r == v
//@   ensures other: k2 != k ==> (!ok2 && r2 == 0)

//@ func mapSetGetBad
//@   ensures other: !ok2 && r2 == 0

//@ func mapNilRead
//@   ensures zero: r0 == 0

//@ func mapDelete
//@   ensures gone: !r0

//@ func mapOverwrite
//@   ensures kept: forall(j, 0, 256, m[byte(j)] == old(m[byte(j)]))

//@ func mapOtherKeysKept
//@   ensures kept: forall(j, 0, 256, byte(j) != k ==> (m[byte(j)] == old(m[byte(j)]) && has(m, byte(j)) == old(has(m, byte(j)))))
//@   ensures set: m != nil ==> (has(m, k) && m[k] == 7)

//@ func mapHavocByCall
//@   ensures kept: m != nil ==> m[k] == 7

// spec_anyKey: a rigid logical variable (body-less spec function without arguments = one unknown constant)
//@ func mapCopySubset
//@   ensures subset: has(r0, spec_anyKey()) ==> (has(src, spec_anyKey()) && r0[spec_anyKey()] == src[spec_anyKey()])
//@   loop 1 invariant sub: has(dst, spec_anyKey()) ==> (has(src, spec_anyKey()) && dst[spec_anyKey()] == src[spec_anyKey()])

//@ func mapCopyWrongSource
//@   ensures subset: has(r0, spec_anyKey()) ==> (has(src, spec_anyKey()) && r0[spec_anyKey()] == src[spec_anyKey()])
//@   loop 1 invariant sub: has(dst, spec_anyKey()) ==> (has(src, spec_anyKey()) && dst[spec_anyKey()] == src[spec_anyKey()])

//@ func mapMinPerKey
//@   ensures le: old(has(m, id)) ==> (has(m, id) && m[id] <= off && m[id] <= old(m[id]))
//@   ensures others: forall(j, 0, 256, byte(j) != id ==> (m[byte(j)] == old(m[byte(j)]) && has(m, byte(j)) == old(has(m, byte(j)))))
//@   ensures noinsert: !old(has(m, id)) ==> !has(m, id)

//@ func mapMinPerKeyBad
//@   ensures le: old(has(m, id)) ==> (has(m, id) && m[id] <= off)

//@ func mapStringKeysMayCollide
//@   ensures absent: !r0

//@ func mapClear
//@   ensures gone: !r0

func spec_anyKey() string { return spec_anyKey() }

//@ func quantNestedLoop
//@   requires x != nil && !sameobj(b, x)
//@   requires all4: forall(k, 0, len(x.rows), len(x.rows[k]) == 4 && !sameobj(x.rows[k], b))
//@   ensures keep: forall(k, 0, len(x.rows), len(x.rows[k]) == 4)
//@   loop 1 invariant rows: 0 <= i && forall(k, 0, len(x.rows), len(x.rows[k]) == 4 && !sameobj(x.rows[k], b))

//@ func quantNested
//@   requires x != nil
//@   requires all4: forall(k, 0, len(x.rows), len(x.rows[k]) == 4)
//@   ensures four: r0 == 0 || r0 == 4
