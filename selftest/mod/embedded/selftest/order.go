package selftest

import "math/bits"

type flog interface {
	Flush() error
	Sync() error
	Append(b []byte) error
}

type dstore struct {
	tx, cl   flog
	frontier uint64
	n        int
}

// EXPECT-LITE pass
func orderOK(s *dstore, f func()) error {
	if err := s.tx.Flush(); err != nil {
		return err
	}
	if err := s.tx.Sync(); err != nil {
		return err
	}
	f() // arbitrary code between the events
	for i := 0; i < s.n; i++ {
		if err := s.cl.Append(nil); err != nil {
			return err
		}
	}
	if err := s.cl.Flush(); err != nil {
		return err
	}
	if err := s.cl.Sync(); err != nil {
		return err
	}
	s.frontier = 1
	return nil
}

// EXPECT-LITE fail order:selftest.orderCondSync:tx_synced_before_append
func orderCondSync(s *dstore) error {
	if s.n > 3 {
		if err := s.tx.Sync(); err != nil {
			return err
		}
	}
	return s.cl.Append(nil)
}

// EXPECT-LITE fail order:selftest.orderIgnoredErr:tx_synced_before_append
func orderIgnoredErr(s *dstore) error {
	s.tx.Sync()
	return s.cl.Append(nil)
}

// EXPECT-LITE fail order:selftest.orderSwapped:tx_synced_before_append
func orderSwapped(s *dstore) error {
	if err := s.cl.Append(nil); err != nil {
		return err
	}
	return s.tx.Sync()
}

// EXPECT-LITE fail order:selftest.orderFrontierEarly:cl_synced_before_frontier
func orderFrontierEarly(s *dstore) error {
	s.frontier = 1
	return s.cl.Sync()
}

// EXPECT-LITE fail order:selftest.orderAckWithoutSync:synced_before_ok
func orderAckWithoutSync(s *dstore) (err error) {
	defer func() { s.n++ }()
	if s.n == 0 {
		return nil
	}
	return s.tx.Sync()
}

// EXPECT-LITE pass
func orderAckOK(s *dstore) (err error) {
	defer func() { s.n++ }()
	if s.n == 0 {
		return ErrBad
	}
	return s.tx.Sync()
}

// EXPECT-LITE fail event-not-found
func orderNoEvent(s *dstore) error {
	return s.tx.Sync()
}

// EXPECT fail not-evaluable
func staleContract(b []byte) int {
	n := 0
	for i := 0; i < len(b); i++ {
		n += int(b[i])
	}
	return n
}

type holder struct{ x int }

// EXPECT pass
func localInPost(h *holder, b []int) error {
	if len(b) == 0 {
		return ErrBad
	}
	last := 0
	for i := 0; i < len(b); i++ {
		last = b[i]
	}
	h.x = last
	return nil
}

// EXPECT fail post:selftest.localInPostBad:stored
func localInPostBad(h *holder, b []int) error {
	if len(b) == 0 {
		return ErrBad
	}
	last := 0
	for i := 0; i < len(b); i++ {
		last = b[i]
	}
	h.x = last + 1
	return nil
}

// EXPECT pass
func lenBits(j uint64) int {
	return bits.Len64(j - 1)
}

// EXPECT-LITE pass
func orderDeferredOK(s *dstore) error {
	if err := s.cl.Flush(); err != nil {
		return err
	}
	defer func() {
		s.cl.Sync()
	}()
	s.frontier = 2
	return nil
}

// EXPECT-LITE fail order:selftest.orderDeferredBad:cl_flushed_before_sync
func orderDeferredBad(s *dstore) (err error) {
	defer func() {
		s.cl.Sync()
	}()
	if s.n > 3 {
		return ErrBad
	}
	return s.cl.Flush()
}

func checkProof(p []byte, root byte) bool { return len(p) > 0 && p[0] == root }

type trust struct {
	id  uint64
	key []byte
}

// EXPECT-LITE pass
func verdictOK(s *dstore, t *trust, p []byte) (res uint64, err error) {
	defer func() { s.n++ }()
	if !checkProof(p, 1) {
		return 0, ErrBad
	}
	if t.id > 0 {
		if err := s.tx.Sync(); err != nil {
			return 0, err
		}
	}
	if t.key != nil {
		if err := s.cl.Flush(); err != nil {
			return 0, err
		}
	}
	s.frontier = 7
	return 1, nil
}

// EXPECT-LITE fail order:selftest.verdictIgnored:proof_before_frontier
func verdictIgnored(s *dstore, t *trust, p []byte) (uint64, error) {
	ok := checkProof(p, 1)
	if !ok && t.id > 5 {
		return 0, ErrBad
	}
	s.frontier = 7
	return 1, nil
}

// EXPECT-LITE fail order:selftest.branchOffByOne:sync_or_first_before_frontier
func branchOffByOne(s *dstore, t *trust, p []byte) (uint64, error) {
	if t.id > 1 {
		if err := s.tx.Sync(); err != nil {
			return 0, err
		}
	}
	s.frontier = 7
	return 1, nil
}

// EXPECT-LITE fail order:selftest.okWithoutFrontier:frontier_before_ok
func okWithoutFrontier(s *dstore, t *trust, p []byte) (res uint64, err error) {
	defer func() { s.n++ }()
	if t.id == 3 {
		return 1, nil
	}
	s.frontier = 7
	return 1, nil
}
