package selftest

import "sync"

type mutex = sync.Mutex

// EXPECT-LITE fail lock:selftest.lockLeak:balance
func lockLeak(l *locked, c bool) int {
	l.mu.Lock()
	if c {
		return 0
	}
	l.mu.Unlock()
	return 1
}

// EXPECT-LITE pass
func lockOK(l *locked, c bool) int {
	l.mu.Lock()
	defer l.mu.Unlock()
	if c {
		return 0
	}
	return 1
}
