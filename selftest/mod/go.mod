module github.com/codenotary/immudb

go 1.25.0
